#!/bin/sh
# ./record_seedcheck.sh <ID>-<k> <field> <check ids...>  - run checks (quick) against a stored
# seeded change and record the outcome in its meta.json under <field>
# (checks_run | checks_run_after_strengthening).
set -u
S="$1"; FIELD="$2"; shift 2
DST="/verif/seeded/$S"
P="$DST/patch.diff"; [ -f "$DST/patch.rebased.diff" ] && P="$DST/patch.rebased.diff"
RES=""
for C in "$@"; do
    OUT=$(/verif/seedcheck.sh "$P" "$C" quick 2>&1)
    echo "$OUT" | tail -3
    if echo "$OUT" | grep -q "VIOLATION property=$C"; then
        CL=$(echo "$OUT" | grep "minimised violation" | head -1 | sed 's/.*minimised violation: \[\([^]]*\)\].*/\1/')
        RES="$RES $C:caught[$CL]"
    elif echo "$OUT" | grep -q "== $C exit=0"; then
        RES="$RES $C:missed"
    else
        RES="$RES $C:error"
    fi
done
python3 - "$DST/meta.json" "$FIELD" "$RES" <<'PY'
import json,sys
m=json.load(open(sys.argv[1]))
prev=m.get(sys.argv[2],"")
new=sys.argv[3].strip()
m[sys.argv[2]]=(prev+" | "+new) if (prev and sys.argv[2]!='checks_run') else new
json.dump(m,open(sys.argv[1],'w'),indent=1)
print(sys.argv[1], sys.argv[2], m[sys.argv[2]])
PY
