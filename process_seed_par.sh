#!/bin/sh
# ./process_seed_par.sh <ID> <k> [check ids...]  - like process_seed.sh, but the checks run in a
# scratch copy of /verif against a scratch worktree of /repo (never /repo itself), so several
# changes can be processed at the same time. Default check: the change's own property.
set -u
ID="$1"; K="$2"; shift 2
[ $# -eq 0 ] && set -- "$ID"
WT="/tmp/wt_$ID"
DST="/verif/seeded/$ID-$K"
CONF=$(/verif/confirm_seed.sh "$WT" "$K" 2>&1)
echo "$CONF" | tail -4
echo "$CONF" | grep -q "^CONFIRMED" || { echo "NOT CONFIRMED: $ID-$K"; exit 1; }
mkdir -p "$DST"
cp "$WT/SEEDED/$K/patch.diff" "$WT/SEEDED/$K/demo.diff" "$DST/"
W=/tmp/ps_${ID}_$K
rm -rf "$W"; mkdir -p "$W"
git -C /repo worktree add --detach "$W/repo" HEAD >/dev/null 2>&1
rsync -a --exclude .git --exclude seeded --exclude replays --exclude evidence /verif/ "$W/verif/"
mkdir -p "$W/verif/evidence" "$W/verif/replays"
sed -i "s#path = \"/repo\"#path = \"$W/repo\"#" "$W/verif/sim/Cargo.toml"
RES=""
if ! git -C "$W/repo" apply "$DST/patch.diff"; then RES="apply-error"; else
for C in "$@"; do
    LOG="/tmp/r11/$ID-$K.$C.log"
    (cd "$W/verif" && VERIF_WORKERS=8 ./check "$C" quick) > "$LOG" 2>&1; RC=$?
    CL=$(grep "minimised violation" "$LOG" | head -1 | sed 's/.*minimised violation: \[\([^]]*\)\].*/\1/')
    if grep -q "VIOLATION property=$C" "$LOG"; then RES="$RES $C:caught[$CL]"
    elif [ $RC -eq 0 ]; then RES="$RES $C:missed"
    else RES="$RES $C:error"; fi
done
fi
git -C /repo worktree remove --force "$W/repo"; rm -rf "$W"
python3 - "$WT/SEEDED/$K/meta.json" "$DST/meta.json" "$RES" "$(echo "$CONF" | grep '^RESULT')" "$(echo "$CONF" | grep '^SUITE-FAILING')" <<'PY'
import json,sys
m=json.load(open(sys.argv[1]))
m['confirmed_by_me']=sys.argv[4]+" "+sys.argv[5]+" (confirm_seed.sh: demo passes on the unchanged tree, fails with the patch; existing suite run with the patch in a private network namespace, only known-flaky port/timing tests may fail)"
m['checks_run']=sys.argv[3].strip()
json.dump(m,open(sys.argv[2],'w'),indent=1)
print("stored", sys.argv[2], m['checks_run'])
PY
