#!/usr/bin/env python3
"""./recordfirst.py <results.txt>  - writes the first result of a seedsweep.sh run into the
meta.json of every stored change whose checks_run is still empty."""
import json, sys
for line in open(sys.argv[1]):
    parts = line.split(None, 1)
    if len(parts) < 2: continue
    name, res = parts[0], parts[1].strip()
    pid = name.split("-")[0]
    f = f"/verif/seeded/{name}/meta.json"
    m = json.load(open(f))
    if m.get("checks_run"): continue
    m["checks_run"] = f"{pid}:{res}" if res.startswith("caught") else (f"{pid}:missed" if res == "MISSED" else f"{pid}:{res}")
    json.dump(m, open(f, "w"), indent=1)
    print(name, m["checks_run"])
