#!/bin/sh
# Determinism self-test: the digests of many runs of every check, computed twice in separate
# processes (and once more under a different worker environment), must agree.
set -u
ROOT="$(cd "$(dirname "$0")" && pwd)"
BIN="$ROOT/sim/target/release/uflow-sim"
N="${SELFTEST_RUNS:-120}"
SEED="${VERIF_SEED:-1}"
TMP="$(mktemp -d)"
trap 'rm -rf "$TMP"' EXIT
FAIL=0
for ID in $("$BIN" list | cut -d' ' -f1); do
    "$BIN" digests "$ID" "$SEED" 0 "$N" > "$TMP/a.$ID" 2>/dev/null &
    "$BIN" digests "$ID" "$SEED" 0 "$N" > "$TMP/b.$ID" 2>/dev/null &
done
wait
for ID in $("$BIN" list | cut -d' ' -f1); do
    if ! cmp -s "$TMP/a.$ID" "$TMP/b.$ID"; then
        echo "NON-DETERMINISTIC: $ID"
        diff "$TMP/a.$ID" "$TMP/b.$ID" | head -5
        FAIL=1
    else
        echo "$ID: $(wc -l < "$TMP/a.$ID") runs, digests identical in two processes"
    fi
done
exit $FAIL
