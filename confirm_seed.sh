#!/bin/sh
# ./confirm_seed.sh <worktree> <k>   - confirm a sub-agent's seeded change in its scratch worktree:
#   demo passes on the unchanged tree, fails with the patch; the existing suite passes with the patch.
set -u
WT="$1"; K="$2"
D="$WT/SEEDED/$K"
cd "$WT" || exit 2
git checkout -q -- . ; git clean -fdq -e SEEDED -e target
export CARGO_TARGET_DIR="$WT/target" CARGO_NET_OFFLINE=true
FILTER=$(python3 -c "import json,sys; m=json.load(open('$D/meta.json')); print(m.get('demo_cmd',''))")
echo "demo_cmd: $FILTER"
git apply "$D/demo.diff" || { echo "CONFIRM-FAIL demo.diff does not apply"; exit 1; }
echo "--- unchanged tree + demo"
unshare -n sh -c "ip link set lo up; $FILTER" > /tmp/confirm_a_$$.log 2>&1; A=$?
tail -3 /tmp/confirm_a_$$.log
git apply "$D/patch.diff" || { echo "CONFIRM-FAIL patch.diff does not apply"; git checkout -q -- .; git clean -fdq -e SEEDED -e target; exit 1; }
echo "--- patched tree + demo"
unshare -n sh -c "ip link set lo up; $FILTER" > /tmp/confirm_b_$$.log 2>&1; B=$?
grep -E "test result|panicked|FAILED" /tmp/confirm_b_$$.log | head -5
# existing suite with the patch only
git checkout -q -- . ; git clean -fdq -e SEEDED -e target
git apply "$D/patch.diff"
echo "--- patched tree, existing suite"
unshare -n sh -c "ip link set lo up; cargo test --offline --no-fail-fast" > /tmp/confirm_c_$$.log 2>&1; C=$?
grep -E "^test result|FAILED|failed" /tmp/confirm_c_$$.log | head -12
echo "SUITE-FAILING: $(grep -E '^test .* FAILED$' /tmp/confirm_c_$$.log | sed 's/^test //; s/ \.\.\. FAILED$//' | sort -u | tr '\n' ';')"
git checkout -q -- . ; git clean -fdq -e SEEDED -e target
rm -f /tmp/confirm_a_$$.log /tmp/confirm_b_$$.log /tmp/confirm_c_$$.log
echo "RESULT demo_on_unchanged_exit=$A demo_on_patched_exit=$B suite_on_patched_exit=$C"
if [ $A -eq 0 ] && [ $B -ne 0 ]; then echo "CONFIRMED (suite exit $C: check the failures against the known-flaky list)"; else echo "CONFIRM-FAIL"; fi
