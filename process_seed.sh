#!/bin/sh
# ./process_seed.sh <ID> <k> <check ids...>  - confirm a sub-agent's change, store it under
# /verif/seeded/<ID>-<k>/ and run the named checks (quick tier) against it.
set -u
ID="$1"; K="$2"; shift 2
WT="/tmp/wt_$ID"
DST="/verif/seeded/$ID-$K"
CONF=$(/verif/confirm_seed.sh "$WT" "$K" 2>&1)
echo "$CONF" | tail -4
echo "$CONF" | grep -q "^CONFIRMED" || { echo "NOT CONFIRMED: $ID-$K"; exit 1; }
mkdir -p "$DST"
cp "$WT/SEEDED/$K/patch.diff" "$WT/SEEDED/$K/demo.diff" "$DST/"
RES=""
for C in "$@"; do
    OUT=$(/verif/seedcheck.sh "$DST/patch.diff" "$C" quick 2>&1)
    echo "$OUT" | tail -3
    if echo "$OUT" | grep -q "VIOLATION property=$C"; then
        CL=$(echo "$OUT" | grep "minimised violation" | head -1 | sed 's/.*minimised violation: \[\([^]]*\)\].*/\1/')
        RES="$RES $C:caught[$CL]"
    elif echo "$OUT" | grep -q "== $C exit=0"; then
        RES="$RES $C:missed"
    else
        RES="$RES $C:error"
    fi
done
python3 - "$WT/SEEDED/$K/meta.json" "$DST/meta.json" "$RES" "$(echo "$CONF" | grep '^RESULT')" <<'PY'
import json,sys
m=json.load(open(sys.argv[1]))
m['confirmed_by_me']=sys.argv[4]+" (confirm_seed.sh: demo passes on the unchanged tree, fails with the patch; existing suite run with the patch in a private network namespace, only known-flaky port/timing tests may fail)"
m['checks_run']=sys.argv[3].strip()
json.dump(m,open(sys.argv[2],'w'),indent=1)
print("stored", sys.argv[2], m['checks_run'])
PY
