#!/bin/sh
# ./confirm_store.sh <ID> <k>  - confirm a sub-agent's change in its scratch worktree and store it
# under /verif/seeded/<ID>-<k>/ (no check is run; see seedcheck.sh / record_seedcheck.sh).
set -u
ID="$1"; K="$2"
WT="/tmp/wt_$ID"
DST="/verif/seeded/$ID-$K"
CONF=$(/verif/confirm_seed.sh "$WT" "$K" 2>&1)
echo "$CONF" | tail -4
echo "$CONF" | grep -q "^CONFIRMED" || { echo "NOT CONFIRMED: $ID-$K"; exit 1; }
mkdir -p "$DST"
cp "$WT/SEEDED/$K/patch.diff" "$WT/SEEDED/$K/demo.diff" "$DST/"
python3 - "$WT/SEEDED/$K/meta.json" "$DST/meta.json" "$(echo "$CONF" | grep '^RESULT')" <<'PY'
import json,sys
m=json.load(open(sys.argv[1]))
m['confirmed_by_me']=sys.argv[3]+" (confirm_seed.sh: demo passes on the unchanged tree, fails with the patch; existing suite run with the patch in a private network namespace, only known-flaky port/timing tests may fail)"
m['checks_run']=""
json.dump(m,open(sys.argv[2],'w'),indent=1)
print("stored", sys.argv[2])
PY
