#!/usr/bin/env python3
"""Regenerates MANIFEST.json from the table below (keeps the file valid at all times)."""
import json, subprocess

HOOK_COMMITS = subprocess.run(["git", "-C", "/repo", "log", "--format=%h %s", "--grep=^verif hook"], capture_output=True, text=True).stdout.strip().splitlines()

A = "World A (two real HalfConnections wired by harness glue on a simulated network and virtual clock)"
B = "World B (real Client and Server over the simulated UdpSocket, virtual clock, seeded nonces)"

CHECKS = {
 "C01": ("seeded DST: random fault schedules over two endpoints; history oracle = per-channel subsequence + byte equality", A,
         "Per-(direction, channel) greedy subsequence matching of delivered against submitted payloads (tagged, byte-exact) on every delivery, under drop/dup/reorder/1-4-bit flips/blackouts/type-targeted loss, all cadences, ids next to wrap-around, window sizes 1..4096."),
 "C02": ("seeded DST: finite fault prefix then fair network; safety oracle on every delivery + bounded-liveness oracle at quiescence", A,
         "Safety: a delivery never passes an undelivered Reliable packet of its channel (any faults). Liveness: after the last fault every Reliable packet is delivered and the sender buffers drain within T_live = 900 s + 128 s x 80 frames of simulated time (derived from the s/64 floor rate)."),
 "C05": ("seeded DST on a loss-free order-preserving link; oracle = delivered sequence equals submitted sequence minus sender-dropped TimeSensitive", A,
         "Fault-free baseline with the strictest expectation: global order across channels, everything except TimeSensitive delivered exactly once, missing TimeSensitive packets accounted for by sender-side drops."),
 "C20": ("seeded DST; reference model of the send buffer checked after every call", A,
         "Model = accepted bytes - TimeSensitive drops - bytes below the accepted packet-window base, compared with send_buffer_size() after every API call; arithmetic underflow surfaces as an overflow panic (overflow checks on)."),
 "C03": ("seeded DST with a hostile connected peer / hostile middlebox (CRC-valid frames, boundary and near-valid fields) interleaved with API calls; oracle = no panic in uflow, every call returns (watchdog + child-process confirmation)", A,
         "Every call into uflow runs under catch_unwind and a wall-clock watchdog; panics located in uflow (including failed debug assertions and arithmetic overflow in the simulation profile) and calls that do not return are violations, each with a minimised replay. Hostile frames come from a raw encoder covering every field's encodable range."),
 "C04": ("seeded DST with the payload length swept by run index; fragment permutation/duplication/partial loss + a rewriting middlebox; oracle = byte-exact delivery, frame size <= 1472, completeness after heal", A,
         "The boundary set of lengths (0, 1, around every multiple of 1448 up to 8, 16, 45 fragments, 63-65 / 127-129 / 191-193 / 255-257 fragments, 1 MB) is covered completely in every tier; delivered packets are compared byte for byte; a hostile middlebox appends header-disagreeing fragments for packets in progress."),
 "C06": ("seeded DST: (a) hostile never-completing streams (among them one packet of 52-100 % of the limit growing fragment by fragment in order) against a receiver whose heap is measured by the harness allocator, (b) genuine pairs with the sender's outstanding packets modelled from trace taps, (c) real Client/Server pairs with unequal limits, on a clean link and under handshake faults: incompatible pairs are refused in the handshake, the negotiated allocation and rate are the advertised ones", A,
         "Receiver: allocator-measured bytes attributed to the victim stay within the fragment-rounded limit plus a constant bookkeeping budget, its own counter stays within the limit, the acknowledgement queue stays bounded. Sender: packets numbered and not yet below the accepted window base never exceed the advertised allocation (fragment-rounded) nor 4096; a genuine receiver never discards a packet for lack of memory."),
 "C12": ("seeded DST; wire-log oracle attributing every (packet id, fragment id) emission to its submission and mode", A,
         "Unreliable/TimeSensitive fragments appear at most once; a TimeSensitive packet is begun no later than the first step() after send(); nothing is emitted again in a call later than the one that processed its acknowledgement or the receiver's window passing the packet."),
 "C13": ("seeded DST; all-windows byte bound on the emitted data/sync/ack frames against ceiling x (interval + RTT estimate) + 1472", A,
         "Every window of up to 256 frames is checked exactly, longer ones by a running-minimum scan; the allowed rate is compared with the ceiling after every call. One genuine defect (late refill) is a recorded known finding with a weaker envelope that still bounds it."),
 "C11": ("seeded DST: warm-up, then blackout / ack blackout / heavy loss / x10 RTT step, then heal; bounded-liveness oracles on probe packets of every mode, on quiescence and on the allowed rate", A,
         "After the last fault, probes of every mode are delivered, every Reliable packet is delivered and the senders drain within T_live; with a standing backlog the allowed rate has left the s/64 floor after 600 s; a call that never returns is a violation too."),
 "C14": ("seeded DST of the rate computer alone (World U) under arbitrary feedback histories plus real histories from World A; independent RFC 5348 bound evaluator on every rate update", "World U (real SendRateComp/RecvRateSet driven directly) and World A",
         "On every feedback: RTT EWMA 0.9/0.1, ceiling and s/64 floor, throughput-equation bound once loss is reported, halving rule when leaving slow start, at-most-doubling in slow start; on every no-feedback expiry: never up, at most halved; between events the rate does not move."),
 "C15": ("seeded DST with twin runs: identical plan with and without extra forged / replayed / re-packed ack frames; oracle = equality of the sender's emitted bytes and probe at every call", A,
         "Same seed in both runs so nonces and fates coincide; any divergence of the sender's wire output or of its RTT, RTO, rate, loss, timer, queue and window state is a violation."),
 "C19": ("seeded DST under a layout-checking global allocator with per-endpoint live-byte accounting; teardown oracle", A,
         "Every deallocation's Layout is compared with the allocation's (header in front of each block); after dropping every endpoint of a run the bytes they allocated must all have been released."),
 "C07": ("seeded DST of real Clients and a real Server over the simulated socket: handshake frame loss/dup/reorder, forged and replayed handshake frames, incompatible configurations, restarts; oracle = Connect events justified by the nonces seen on the wire", B,
         "The harness reads every datagram, so it knows each side's genuine nonce: a server Connect requires a consumed ACK carrying a nonce the server sent to that address, a client Connect a consumed SYN-ACK echoing its own; the two half connections created by one handshake must agree on sequence numbers and negotiated limits; refused configurations get the matching error and never connect; forged or stale handshake frames leave established connections untouched (in-order exactly-once delivery and the event automaton keep holding)."),
 "C08": ("seeded DST of random API-call interleavings on real Client/Server with faults on every frame type and racing timers; oracle = per-connection event automaton", B,
         "Idle -> Connected -> Ended automaton per (endpoint, peer address) fed with every event step() returns: Connect only from Idle/Ended, Receive/Disconnect only while Connected, at most one terminal event, nothing afterwards."),
 "C09": ("seeded DST of disconnect()/disconnect_now() from either side with queued data, frame faults and blackouts after the call; oracles = flush guarantee at the peer's Disconnect and bounded termination of both ends", B,
         "If the peer sees Disconnect, every Reliable packet submitted before disconnect() has been delivered to it; both endpoints reach a terminal event within the 22 s retry budget (the peer at the latest by its own silence timer) counted from the first Disconnect frame on the wire."),
 "C10": ("seeded DST with skewed and jumping virtual clocks, lost handshake legs swept by run index, blackouts and idle hours; oracle mirrors the definition of silence per endpoint clock", B,
         "Exact in the endpoint's own millisecond timeline: Error(Timeout) on an established connection only if no data/ack/sync frame was read for active_timeout_ms (establishment counts as heard), and reported by the first step after that much silence; idle keepalive connections survive simulated hours; unanswered handshakes and disconnects show exactly 1 + 10 transmissions at least 2 s apart and time out no earlier than 22 s after the first."),
 "C17": ("seeded DST with the limit pair swept by run index and many clients arriving in bursts; oracle = counters of established and tracked connections after every step", B,
         "Established connections (server Connect until terminal event, drop() or its own Disconnect request) never exceed max_active_connections, tracked entries never exceed max_total_connections; on a loss-free link non-admitted clients see ServerFull and a late client is admitted once capacity has returned."),
 "C18": ("seeded DST with raw spoofable sockets that never return a nonce; oracle = per-address byte accounting after every server transmission", B,
         "For every unverified address the bytes the server has sent stay below the bytes received from it, with and without 28-byte UDP/IP headers; addresses that only sent undersized requests get nothing."),
}

NOT_APPLICABLE = {
 "C16": "pure function of its input (codec round-trip / CRC Hamming distance): no schedule, clock, fault or interleaving in it, so deterministic simulation has nothing to decide; the simulator only reports by-product counters (every 1-4-bit-flipped datagram it carried was rejected) in the C01 evidence",
}
PENDING = "check not built yet in this session (work in progress, see DESIGN.md section 13)"

props = [json.loads(l)["id"] for l in open("/verif/properties.jsonl")]
checks = []
for pid in props:
    if pid in CHECKS:
        tech, world, text = CHECKS[pid]
        checks.append({
            "property_id": pid,
            "quick_cmd": f"./check {pid} quick",
            "thorough_cmd": f"./check {pid} thorough",
            "evidence_file": f"/verif/evidence/{pid}.json",
            "replay_cmd_template": "./check replay {path}",
            "engine": "uflow-sim",
            "level_claimed": {"category": "exploration", "text": text + " Seeded sampling of schedules and fault sequences: evidence, not proof.", "design_ref": f"DESIGN.md section 7 ({pid})"},
            "level_note": f"{world}. Trusted: the harness (simulator, oracles), the hooks in /repo/src/verif, rustc. Stubs: clock, rand, UDP socket (and Client/Server glue in World A).",
            "technique": tech,
        })
na = [{"property_id": p, "reason": NOT_APPLICABLE.get(p, PENDING)} for p in props if p not in CHECKS]

manifest = {
 "version": 1,
 "setup_cmd": "./check build",
 "hooks": {
   "guard": "uflow_verif",
   "enable": "RUSTFLAGS='--cfg uflow_verif' (set in /verif/sim/.cargo/config.toml; the simulator depends on /repo by path, so every check rebuilds from /repo's working tree)",
   "baseline_off_cmd": "cd /repo && (cargo nextest run --workspace --no-fail-fast --tool-config-file pb:/w/lib/nextest.toml --profile pb --test-threads 8 --offline || cargo test --workspace --no-fail-fast --offline)",
   "source_commits": [c.split()[0] for c in HOOK_COMMITS],
   "add_only": True,
 },
 "engines": [{"name": "uflow-sim", "path": "/verif/sim", "serves_properties": sorted(CHECKS), "kind_free_text": "deterministic discrete-event simulator with seeded fault injection, replay files and delta-debugging minimiser (Rust, single crate)"}],
 "checks": checks,
 "not_applicable": na,
 "notes": "VERIF_SEED selects the seed (default 1); VERIF_RUNS / VERIF_BUDGET_S / VERIF_WORKERS override the run budget, wall-clock cap and worker count. Exit 0 = held, 1 = VIOLATION line printed, 2 = harness error.",
}
json.dump(manifest, open("/verif/MANIFEST.json", "w"), indent=1)
print("claimed:", sorted(CHECKS), "not claimed:", [x["property_id"] for x in na])
