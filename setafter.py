#!/usr/bin/env python3
"""./setafter.py <ID-k> <text>   set checks_run_after_strengthening in seeded/<ID-k>/meta.json"""
import json, sys
f = f"/verif/seeded/{sys.argv[1]}/meta.json"
m = json.load(open(f))
m["checks_run_after_strengthening"] = sys.argv[2]
json.dump(m, open(f, "w"), indent=1)
print(f, "->", sys.argv[2][:100])
