#!/usr/bin/env python3
"""Regenerates the table of DESIGN.md section 14.6 from seeded/*/meta.json and prints the counts
quoted in the section's introduction."""
import json, glob, re, os
root = os.path.dirname(os.path.abspath(__file__))
rows = []
for f in glob.glob(os.path.join(root, "seeded", "C*-*", "meta.json")):
    name = os.path.basename(os.path.dirname(f))
    p, k = name.split("-")
    rows.append((p, int(k), name, json.load(open(f))))
rows.sort()
cell = lambda s: (s or "").replace("\n", " ").replace("|", "/")
out = []
first_miss = {}
total = {}
uncaught = []
for p, k, name, m in rows:
    s = cell(m.get("summary", ""))
    s = s[:200] + ("…" if len(s) > 200 else "")
    first = cell(m.get("checks_run", ""))
    after = cell(m.get("checks_run_after_strengthening") or "")
    out.append(f"| {name} | {s} | {first} | {after} |")
    rnd = (k + 1) // 2
    total[rnd] = total.get(rnd, 0) + 1
    own_first = re.search(p + r":caught", first) is not None
    if not own_first:
        first_miss[rnd] = first_miss.get(rnd, 0) + 1
        if re.search(p + r":caught", after) is None:
            uncaught.append(name)
d = open(os.path.join(root, "DESIGN.md")).read().split("\n")
i = next(n for n, l in enumerate(d) if l.startswith("| C01-1 |"))
j = i
while j < len(d) and d[j].startswith("| C"):
    j += 1
d[i:j] = out
open(os.path.join(root, "DESIGN.md"), "w").write("\n".join(d))
print("changes:", len(rows), "per round:", total, "first-result misses per round:", first_miss, "caught at first:", len(rows) - sum(first_miss.values()))
print("not caught by own property after strengthening:", uncaught)
