#!/bin/sh
# ./seedsweep.sh [workers] [pattern...]  - regression over the stored seeded changes: each one is
# applied to a scratch worktree of /repo (never /repo itself) and its own property's quick check,
# built from a scratch copy of /verif, has to report a violation. Results: /tmp/seedsweep_<pid>/results.txt
set -u
N="${1:-4}"; [ $# -gt 0 ] && shift; [ $# -eq 0 ] && set -- "C*-*"
OUT=/tmp/seedsweep_$$
rm -rf "$OUT"; mkdir -p "$OUT"
for PAT in "$@"; do ls -d /verif/seeded/$PAT; done | sort -u > "$OUT/all.txt"
i=0
while read -r d; do i=$(( (i % N) + 1 )); echo "$d" >> "$OUT/list_$i.txt"; done < "$OUT/all.txt"
for i in $(seq 1 "$N"); do
  [ -f "$OUT/list_$i.txt" ] || continue
  (
    W=/tmp/sw_$$_$i
    rm -rf "$W"; mkdir -p "$W"
    git -C /repo worktree add --detach "$W/repo" HEAD >/dev/null 2>&1
    rsync -a --exclude target --exclude .git --exclude seeded --exclude replays --exclude evidence /verif/ "$W/verif/"
    mkdir -p "$W/verif/evidence" "$W/verif/replays"
    sed -i "s#path = \"/repo\"#path = \"$W/repo\"#" "$W/verif/sim/Cargo.toml"
    while read -r d; do
      S=$(basename "$d"); ID=${S%%-*}
      P="$d/patch.diff"; [ -f "$d/patch.rebased.diff" ] && P="$d/patch.rebased.diff"
      if ! git -C "$W/repo" apply "$P" 2>/dev/null; then echo "$S apply-error" >> "$OUT/results.txt"; continue; fi
      LOG="$OUT/$S.log"
      (cd "$W/verif" && VERIF_WORKERS=4 ./check "$ID" quick) > "$LOG" 2>&1; RC=$?
      CL=$(grep "minimised violation" "$LOG" | head -1 | sed 's/.*minimised violation: \[\([^]]*\)\].*/\1/')
      if grep -q "VIOLATION property=$ID" "$LOG"; then echo "$S caught[$CL]" >> "$OUT/results.txt"
      elif [ $RC -eq 0 ]; then echo "$S MISSED" >> "$OUT/results.txt"
      else echo "$S error-rc$RC" >> "$OUT/results.txt"; fi
      git -C "$W/repo" checkout -- .
    done < "$OUT/list_$i.txt"
    git -C /repo worktree remove --force "$W/repo"
    rm -rf "$W"
  ) &
done
wait
git -C /repo worktree prune
sort "$OUT/results.txt" > "$OUT/results.sorted.txt"
echo "results in $OUT"; echo "caught: $(grep -c caught "$OUT/results.txt")  missed: $(grep -c MISSED "$OUT/results.txt")  errors: $(grep -c error "$OUT/results.txt")"
grep -v caught "$OUT/results.sorted.txt"
