#!/bin/sh
# ./seedcheck.sh <patch.diff> <ID> [quick|thorough] [more IDs...]
# Applies a seeded change to /repo, runs the named checks, and undoes it straight afterwards.
set -u
PATCH="$1"; shift
TIER="quick"
IDS=""
for a in "$@"; do
    case "$a" in quick|thorough) TIER="$a";; *) IDS="$IDS $a";; esac
done
cd /repo || exit 2
if [ -n "$(git status --porcelain --untracked-files=no)" ]; then echo "repo not clean"; exit 2; fi
git apply "$PATCH" || { echo "patch does not apply"; exit 2; }
RC=0
for ID in $IDS; do
    OUT=$(cd /verif && VERIF_ROOT=/tmp/seedcheck_root sh -c "mkdir -p /tmp/seedcheck_root && cp -r /verif/known_findings.json /tmp/seedcheck_root/ 2>/dev/null; cp -r /verif/corpus /tmp/seedcheck_root/ 2>/dev/null; cd /verif/sim && cargo build --release --offline >/dev/null 2>&1 && ./target/release/uflow-sim check $ID $TIER" 2>&1)
    CODE=$?
    echo "$OUT" | grep -E "VIOLATION|minimised violation|HARNESS|exit [0-9]|note:" | cut -c1-400
    echo "== $ID exit=$CODE"
    [ $CODE -ne 0 ] && RC=1
done
git -C /repo checkout -- .
rm -rf /tmp/seedcheck_root
# rebuild with the clean tree so that later checks start from it
(cd /verif/sim && cargo build --release --offline >/dev/null 2>&1)
exit $RC
