//! Hostile traffic: a raw frame encoder (every field over its full encodable range, CRC-valid)
//! and adversaries that craft frames from what they have seen on the wire. Adversaries only run
//! in search mode; whatever they inject is recorded as explicit `Inject` operations.

use crate::plan::*;
use crate::rng::{key, Rng};
use crate::world::*;
use uflow::verif as uv;
use uflow::verif::Serialize;

pub fn crc(data: &[u8]) -> u32 {
    let mut reg: u32 = !0;
    for &b in data {
        reg ^= b as u32;
        for _ in 0..8 {
            reg = if reg & 1 != 0 { (reg >> 1) ^ 0x9960034C } else { reg >> 1 };
        }
    }
    !reg
}

pub fn seal(mut body: Vec<u8>) -> Vec<u8> {
    let c = crc(&body);
    body.extend_from_slice(&c.to_be_bytes());
    body
}

/// Startup self-check: the harness CRC agrees with the codec under test.
pub fn crc_selfcheck() -> bool {
    let f = uv::Frame::SyncFrame(uv::SyncFrame { next_frame_id: Some(0x01020304), next_packet_id: Some(77) }).write();
    let n = f.len();
    seal(f[..n - 4].to_vec()) == f.to_vec() && uv::Frame::read(&enc_sync(Some(5), None)).is_some()
}

#[derive(Clone, Debug)]
pub struct RawDatagram {
    pub seq: u32,
    pub ch: u8,
    pub wlead: u16,
    pub clead: u16,
    pub frag: u16,
    pub last: u16,
    pub data: Vec<u8>,
    /// 0 = micro, 1 = small, 2 = large (forced encoding; fields are truncated to what it can hold)
    pub enc: u8,
}

pub fn enc_data(frame_id: u32, nonce: bool, dgs: &[RawDatagram]) -> Vec<u8> {
    let mut b = vec![10u8];
    b.extend_from_slice(&frame_id.to_be_bytes());
    b.push(((nonce as u8) << 7) | (dgs.len().min(127) as u8));
    for d in dgs.iter().take(127) {
        match d.enc {
            0 => {
                let len = d.data.len().min(63);
                b.push(len as u8 | ((d.ch & 0x10) << 2));
                b.push(((d.seq >> 12) as u8 & 0xF0) | (d.ch & 0x0F));
                b.push((d.seq >> 8) as u8);
                b.push(d.seq as u8);
                b.push((d.wlead as u8 & 0x7F) | ((d.ch & 0x20) << 2));
                b.push(d.clead as u8);
                b.extend_from_slice(&d.data[..len]);
            }
            1 => {
                let len = d.data.len().min(255);
                b.push((d.ch & 0x3F) | 0x80);
                b.push(len as u8);
                b.push((d.seq >> 16) as u8);
                b.push((d.seq >> 8) as u8);
                b.push(d.seq as u8);
                b.extend_from_slice(&d.wlead.to_be_bytes());
                b.extend_from_slice(&d.clead.to_be_bytes());
                b.extend_from_slice(&d.data[..len]);
            }
            _ => {
                let len = d.data.len().min(65535);
                b.push((d.ch & 0x3F) | 0xC0);
                b.extend_from_slice(&(len as u16).to_be_bytes());
                b.push((d.seq >> 16) as u8);
                b.push((d.seq >> 8) as u8);
                b.push(d.seq as u8);
                b.extend_from_slice(&d.wlead.to_be_bytes());
                b.extend_from_slice(&d.clead.to_be_bytes());
                b.extend_from_slice(&d.frag.to_be_bytes());
                b.extend_from_slice(&d.last.to_be_bytes());
                b.extend_from_slice(&d.data[..len]);
            }
        }
    }
    seal(b)
}

pub fn enc_sync(next_frame: Option<u32>, next_packet: Option<u32>) -> Vec<u8> {
    let mut b = vec![11u8, (next_frame.is_some() as u8) | ((next_packet.is_some() as u8) << 1)];
    b.extend_from_slice(&next_frame.unwrap_or(0).to_be_bytes());
    b.extend_from_slice(&next_packet.unwrap_or(0).to_be_bytes());
    seal(b)
}

pub fn enc_sync_raw(mode: u8, a: u32, p: u32) -> Vec<u8> {
    let mut b = vec![11u8, mode];
    b.extend_from_slice(&a.to_be_bytes());
    b.extend_from_slice(&p.to_be_bytes());
    seal(b)
}

pub fn enc_ack(frame_base: u32, packet_base: u32, groups: &[(u32, u32, u8)]) -> Vec<u8> {
    let mut b = vec![12u8];
    b.extend_from_slice(&frame_base.to_be_bytes());
    b.extend_from_slice(&packet_base.to_be_bytes());
    b.extend_from_slice(&(groups.len() as u16).to_be_bytes());
    for (base, bits, nonce) in groups {
        b.extend_from_slice(&base.to_be_bytes());
        b.extend_from_slice(&bits.to_be_bytes());
        b.push(*nonce);
    }
    seal(b)
}

pub fn enc_syn(version: u8, nonce: u32, rate: u32, pkt: u32, alloc: u32, total_len: usize) -> Vec<u8> {
    // lengths below the 22 bytes of a complete header give a truncated (still CRC-valid) frame
    let mut b = vec![0u8; 18.max(total_len.max(5) - 4)];
    b[0] = 0;
    b[1] = version;
    b[2..6].copy_from_slice(&nonce.to_be_bytes());
    b[6..10].copy_from_slice(&rate.to_be_bytes());
    b[10..14].copy_from_slice(&pkt.to_be_bytes());
    b[14..18].copy_from_slice(&alloc.to_be_bytes());
    b.truncate(total_len.max(5) - 4);
    seal(b)
}

pub fn enc_syn_ack(nonce_ack: u32, nonce: u32, rate: u32, pkt: u32, alloc: u32) -> Vec<u8> {
    let mut b = vec![1u8];
    for v in [nonce_ack, nonce, rate, pkt, alloc] {
        b.extend_from_slice(&v.to_be_bytes());
    }
    seal(b)
}

pub fn enc_hs_ack(nonce_ack: u32) -> Vec<u8> {
    let mut b = vec![2u8];
    b.extend_from_slice(&nonce_ack.to_be_bytes());
    seal(b)
}

pub fn enc_hs_err(nonce_ack: u32, kind: u8) -> Vec<u8> {
    let mut b = vec![3u8];
    b.extend_from_slice(&nonce_ack.to_be_bytes());
    b.push(kind);
    seal(b)
}

pub fn enc_disc() -> Vec<u8> {
    seal(vec![4u8])
}

pub fn enc_disc_ack() -> Vec<u8> {
    seal(vec![5u8])
}

// ---------------------------------------------------------------------------------------------

/// What an observer of the wire knows about one endpoint's view of a connection.
#[derive(Clone, Debug, Default)]
pub struct Seen {
    /// latest data-frame id the endpoint sent
    pub tx_frame: Option<u32>,
    /// latest packet id seen in its data frames
    pub tx_packet: Option<u32>,
    /// what it expects to receive next (from its ack frames)
    pub rx_frame_base: Option<u32>,
    pub rx_packet_base: Option<u32>,
    /// nonces of its recent data frames (frame id, nonce)
    pub nonces: Vec<(u32, bool)>,
    pub syn_nonce: Option<u32>,
    pub syn_ack_nonce: Option<u32>,
}

impl Seen {
    pub fn observe(&mut self, bytes: &[u8]) {
        match uv::Frame::read(bytes) {
            Some(uv::Frame::DataFrame(f)) => {
                self.tx_frame = Some(f.sequence_id);
                if let Some(d) = f.datagrams.last() {
                    self.tx_packet = Some(d.sequence_id);
                }
                self.nonces.push((f.sequence_id, f.nonce));
                if self.nonces.len() > 64 {
                    self.nonces.remove(0);
                }
            }
            Some(uv::Frame::AckFrame(f)) => {
                self.rx_frame_base = Some(f.frame_window_base_id);
                self.rx_packet_base = Some(f.packet_window_base_id);
            }
            Some(uv::Frame::HandshakeSynFrame(f)) => self.syn_nonce = Some(f.nonce),
            Some(uv::Frame::HandshakeSynAckFrame(f)) => self.syn_ack_nonce = Some(f.nonce),
            _ => (),
        }
    }
}

const BOUNDARY32: [u32; 10] = [0, 1, 2, 0xFFFFF, 0x100000, 0x100001, 0x7FFFFFFF, 0x80000000, 0xFFFFFFFE, 0xFFFFFFFF];

fn near(r: &mut Rng, base: u32, window: u32) -> u32 {
    let w = window.max(1);
    let d = *r.pick(&[0u32, 1, 2, 3, w - 1, w, w + 1, 2 * w - 1, 2 * w, 2 * w + 1, 31, 32, 33, 64, 4095, 4096, 4097, 8192, 65535, 65536]);
    if r.chance(0.5) {
        base.wrapping_add(d)
    } else {
        base.wrapping_sub(d)
    }
}

fn pick32(r: &mut Rng, hint: Option<u32>, window: u32) -> u32 {
    match (r.below(10), hint) {
        (0..=5, Some(h)) => near(r, h, window),
        (6 | 7, _) => *r.pick(&BOUNDARY32),
        _ => r.u32(),
    }
}

fn pick16(r: &mut Rng) -> u16 {
    match r.below(8) {
        0 => 0,
        1 => 1,
        2 => 2,
        3 => 127,
        4 => 128,
        5 => 255,
        6 => *r.pick(&[256u16, 4095, 4096, 65534, 65535]),
        _ => r.below(65536) as u16,
    }
}

/// Crafts one hostile frame aimed at a victim whose expectations are described by `victim`
/// (what it told the peer) and whose own transmissions are `victim_tx`.
pub fn hostile_frame(r: &mut Rng, victim: &Seen, window_hint: u32, allow_big: bool) -> Vec<u8> {
    match r.below(20) {
        // data frames
        0..=8 => {
            let fid = pick32(r, victim.rx_frame_base, window_hint);
            let n = *r.pick(&[0usize, 1, 1, 1, 2, 3, 8, 40, 127]);
            let mut dgs = Vec::new();
            let mut budget = 1472usize - 10;
            for _ in 0..n {
                let seq = pick32(r, victim.rx_packet_base, window_hint) & if r.chance(0.9) { 0xFFFFF } else { 0xFFFFFFFF };
                let enc = *r.pick(&[0u8, 1, 2, 2]);
                let (frag, last) = if enc == 2 {
                    let last = match r.below(6) {
                        0 => 0,
                        1 => 1,
                        2 => r.range(1, 8) as u16,
                        3 => r.range(8, 700) as u16,
                        4 => if allow_big { *r.pick(&[4095u16, 4096, 65534, 65535]) } else { r.range(1, 64) as u16 },
                        _ => pick16(r),
                    };
                    let frag = match r.below(4) {
                        0 => 0,
                        1 => last,
                        2 => r.below(last as u64 + 1) as u16,
                        _ => pick16(r),
                    };
                    (frag, last)
                } else {
                    (0, 0)
                };
                let want = if frag < last && r.chance(0.8) { 1448 } else { *r.pick(&[0usize, 1, 12, 63, 64, 255, 256, 1447, 1448, 1449]) };
                let hdr = [6usize, 9, 14][enc as usize];
                if budget < hdr {
                    break;
                }
                let len = want.min(budget - hdr).min([63usize, 255, 65535][enc as usize]);
                budget -= hdr + len;
                let wlead = pick16(r);
                let clead = if r.chance(0.5) { 0 } else if r.chance(0.5) { wlead.saturating_add(r.below(3) as u16) } else { pick16(r) };
                let ch_span = if r.chance(0.9) { 64 } else { 256 };
                let ch = r.below(ch_span) as u8;
                let fill = r.below(256) as u8;
                dgs.push(RawDatagram { seq, ch, wlead, clead, frag, last, data: vec![fill; len], enc });
            }
            enc_data(fid, r.chance(0.5), &dgs)
        }
        // sync frames
        9..=11 => {
            let mode = *r.pick(&[0u8, 1, 2, 3, 3, 3, 0xFF, 4]);
            enc_sync_raw(mode, pick32(r, victim.rx_frame_base, window_hint), pick32(r, victim.rx_packet_base, window_hint))
        }
        // ack frames
        12..=17 => {
            let fb = pick32(r, victim.tx_frame, window_hint);
            let mut pb = pick32(r, victim.tx_packet, window_hint);
            // the wire field is 32 bits wide, packet ids use the low 20: a value whose low bits
            // lie in the victim's window but which is not a packet id at all
            // (decided from the values already drawn, about one ack frame in eight: the random
            // stream, and with it every other hostile frame of every run, stays what it was)
            if (fb ^ pb).wrapping_mul(0x9E37_79B1) >> 29 == 0 {
                if let Some(h) = victim.tx_packet {
                    let high = ((fb.wrapping_mul(0x85EB_CA6B) >> 20) | 1) & 0xFFF;
                    pb = (h.wrapping_add(pb & 0x3F) & 0xFFFFF) | (high << 20);
                }
            }
            let n = *r.pick(&[0usize, 1, 1, 2, 5, 40, 160]);
            let mut groups = Vec::new();
            for _ in 0..n {
                let base = if !victim.nonces.is_empty() && r.chance(0.6) {
                    let (id, _) = victim.nonces[r.below(victim.nonces.len() as u64) as usize];
                    id.wrapping_sub(r.below(3) as u32)
                } else {
                    pick32(r, victim.tx_frame, window_hint)
                };
                let bits = *r.pick(&[0u32, 1, 3, 0x80000000, 0xFFFFFFFF, 0x55555555, 5]);
                // right parity half of the time when the frames are known
                let mut parity = false;
                for i in 0..32 {
                    if bits & (1 << i) != 0 {
                        if let Some((_, n)) = victim.nonces.iter().find(|(id, _)| *id == base.wrapping_add(i)) {
                            parity ^= *n;
                        }
                    }
                }
                let nonce = if r.chance(0.5) { parity as u8 } else { *r.pick(&[0u8, 1, 2, 255]) };
                groups.push((base, bits, nonce));
            }
            enc_ack(fb, pb, &groups)
        }
        // handshake / disconnect frames and noise
        18 => match r.below(6) {
            0 => enc_syn(*r.pick(&[3u8, 0, 2, 4, 255]), r.u32(), *r.pick(&BOUNDARY32), *r.pick(&BOUNDARY32), *r.pick(&BOUNDARY32), *r.pick(&[1472usize, 21, 22, 100, 1471])),
            1 => enc_syn_ack(victim.syn_nonce.unwrap_or_else(|| r.u32()), r.u32(), *r.pick(&BOUNDARY32), *r.pick(&BOUNDARY32), *r.pick(&BOUNDARY32)),
            2 => enc_hs_ack(victim.syn_ack_nonce.unwrap_or_else(|| r.u32())),
            3 => enc_hs_err(victim.syn_nonce.unwrap_or_else(|| r.u32()), r.below(4) as u8),
            4 => enc_disc(),
            _ => enc_disc_ack(),
        },
        _ => {
            // arbitrary bytes, sometimes with a valid CRC and an arbitrary type byte
            let len = *r.pick(&[0usize, 1, 2, 3, 4, 4, 5, 5, 6, 7, 8, 9, 14, 15, 100, 1471, 1472]);
            let fill = r.below(4);
            let mut v: Vec<u8> = (0..len).map(|_| match fill { 0 => 0u8, 1 => 0xFF, _ => r.below(256) as u8 }).collect();
            // every length from the bare checksum (an empty body) upwards can carry a valid CRC
            if r.chance(0.5) && v.len() >= 4 {
                let n = v.len();
                v = seal(v[..n - 4].to_vec());
            }
            v
        }
    }
}

/// Hostile peer / hostile middlebox for World A and B: watches the wire and injects crafted
/// frames at the victims.
pub struct Hostile {
    rng: Rng,
    /// per endpoint: what it has been seen sending
    seen: Vec<Seen>,
    /// (victim endpoint, claimed source endpoint)
    targets: Vec<(usize, usize)>,
    rate: f64,
    burst_max: u64,
    allow_big: bool,
    count: u64,
    max: u64,
    replay_p: f64,
    recorded: Vec<(usize, Vec<u8>)>,
    /// 1 = mostly data frames (never-completing packets), 2 = flood of empty data frames whose ids are 32 apart,
    /// 3 = packets announced by their short last fragment only, 4 = slot reuse, 5 = complete
    /// one-fragment packets ordered behind a packet that never arrives, 6 = flood of sync frames
    focus: u8,
    flood_next: std::collections::BTreeMap<usize, u32>,
    /// focus 4: packet ids whose slots are to be reused 4096 ids later
    revisit: Vec<u32>,
}

impl Hostile {
    pub fn new(plan: &Plan, targets: Vec<(usize, usize)>) -> Self {
        let mut rng = Rng::keyed(&[plan.fate_seed.unwrap_or(0), 0x686f7374]);
        let rate = *rng.pick(&[0.05, 0.2, 0.5, 1.0]);
        let burst_max = *rng.pick(&[1u64, 2, 8, 30]);
        let mut seen = vec![Seen::default(); plan.endpoints.len()];
        for (i, e) in plan.endpoints.iter().enumerate() {
            if let EndpointKind::Hc { spec, .. } = &e.kind {
                // a connected peer knows the negotiated starting sequence numbers
                seen[i].rx_frame_base = Some(spec.rx_frame_base_id);
                seen[i].rx_packet_base = Some(spec.rx_packet_base_id);
                seen[i].tx_frame = Some(spec.tx_frame_base_id);
                seen[i].tx_packet = Some(spec.tx_packet_base_id);
            }
        }
        Self {
            seen,
            targets,
            rate,
            burst_max,
            allow_big: plan.param("hostile_big", 0.0) != 0.0,
            count: 0,
            max: plan.param("hostile_max", 400.0) as u64,
            replay_p: if rng.chance(0.5) { 0.1 } else { 0.0 },
            recorded: Vec::new(),
            focus: plan.param("hostile_focus", 0.0) as u8,
            flood_next: Default::default(),
            revisit: Vec::new(),
            rng,
        }
    }
}

impl Hostile {
    pub fn set_rate(&mut self, rate: f64, burst_max: u64) {
        self.rate = rate;
        self.burst_max = burst_max;
    }
}

impl Adversary for Hostile {
    fn on_wire(&mut self, w: &WireRec, _now_us: u64, _plan: &Plan, _out: &mut Vec<TimedOp>) {
        self.seen[w.src].observe(&w.bytes);
        if self.recorded.len() < 200 {
            self.recorded.push((w.src, (*w.bytes).clone()));
        }
    }

    fn on_call_end(&mut self, _call: u64, ep: Option<usize>, probe: &Probe, now_us: u64, plan: &Plan, out: &mut Vec<TimedOp>) {
        let Some(ep) = ep else { return };
        if self.count >= self.max || now_us >= plan.end_us {
            return;
        }
        // optional warm-up: before `hostile_start_us` the peer only acknowledges the victim's frames
        let start_us = plan.param("hostile_start_us", 0.0) as u64;
        if now_us < start_us {
            for (victim, from) in self.targets.clone() {
                if victim == ep && self.rng.chance(0.5) {
                    if let (Some((id, nonce)), Probe::Hc(h)) = (self.seen[victim].nonces.last().cloned(), probe) {
                        let bytes = enc_ack(h.tx_frame_window_base_id, h.tx_packet_base_id, &[(id, 1, nonce as u8)]);
                        out.push(TimedOp { t_us: now_us + self.rng.range(1_000, 300_000), rank: DELIVER_RANK_PUB, op: Op::Inject { to: victim, from, bytes, twin: false } });
                    }
                }
            }
            return;
        }
        for (victim, from) in self.targets.clone() {
            if victim != ep || !self.rng.chance(self.rate) {
                continue;
            }
            let window = match probe {
                Probe::Hc(h) => *self.rng.pick(&[h.rx_packet_window_size, h.tx_frame_window_size, h.tx_packet_window_size, 4096]),
                _ => 4096,
            };
            let n = self.rng.range(1, self.burst_max);
            for _ in 0..n {
                let bytes = if self.focus == 2 && plan.param("flood_with_acks", 0.0) != 0.0 && self.rng.chance(0.15) {
                    // now and then a genuine-looking acknowledgement of the victim's own frames, so
                    // that it holds an RTT estimate (and with it a burst allowance)
                    match (self.seen[victim].nonces.last().cloned(), probe) {
                        (Some((id, nonce)), Probe::Hc(h)) => enc_ack(h.tx_frame_window_base_id, h.tx_packet_base_id, &[(id, 1, nonce as u8)]),
                        _ => enc_sync(None, None),
                    }
                } else if self.focus == 6 {
                    // sync flood: every frame asks for an (empty) acknowledgement in reply; now and
                    // then a genuine-looking acknowledgement so that the victim holds an RTT estimate
                    match (self.rng.chance(0.1), self.seen[victim].nonces.last().cloned(), probe) {
                        (true, Some((id, nonce)), Probe::Hc(h)) => enc_ack(h.tx_frame_window_base_id, h.tx_packet_base_id, &[(id, 1, nonce as u8)]),
                        _ => enc_sync(None, None),
                    }
                } else if self.focus == 2 {
                    // acknowledgement-queue flood: every frame opens a new ack group
                    let base = self.seen[victim].rx_frame_base.unwrap_or(0);
                    let next = self.flood_next.entry(victim).or_insert(base);
                    let id = *next;
                    *next = next.wrapping_add(32);
                    // every 64 frames the sender "catches up" the victim's frame window, so that
                    // the flood never runs out of window while the groups it opened stay owed
                    if (id.wrapping_sub(base) / 32) % 64 == 63 {
                        enc_sync(Some(id), None)
                    } else {
                        enc_data(id, false, &[])
                    }
                } else if self.focus == 5 && self.rng.chance(0.95) {
                    // "singles behind a hole": complete one-fragment packets for consecutive ids,
                    // all ordered behind a packet that never comes, far beyond the advertised
                    // allocation
                    let (pbase, pwin, fbase_probe) = match probe {
                        Probe::Hc(h) => (h.rx_packet_base_id, h.rx_packet_window_size.max(2), Some(h.rx_frame_base_id)),
                        _ => (self.seen[victim].rx_packet_base.unwrap_or(0), 4096, None),
                    };
                    // the victim's allocation is (all but) taken by what it holds
                    let full = match probe {
                        Probe::Hc(h) => h.rx_alloc > 0 && h.rx_alloc + 1448 > h.rx_max_alloc,
                        _ => false,
                    };
                    let fbase = fbase_probe.or(self.seen[victim].rx_frame_base).unwrap_or(0);
                    let fnext = self.flood_next.entry(victim).or_insert(fbase);
                    if fnext.wrapping_sub(fbase) > 1000 {
                        *fnext = fbase;
                    }
                    let fid = *fnext;
                    *fnext = fnext.wrapping_add(1);
                    // ... and when the window has been gone through once, or every third time the
                    // allocation is found full, the packet that never came does come: a single
                    // fragment exactly at the window base, with the allocation already taken by
                    // what is held behind it
                    let off = self.flood_next.entry(victim + 2000).or_insert(1);
                    let k = if *off >= pwin.min(4096) || (full && *off % 3 == 0) {
                        *off = 1;
                        0
                    } else {
                        *off += 1;
                        *off - 1
                    };
                    let len = if self.rng.chance(0.8) { 1448 } else { self.rng.range(1, 1448) as usize };
                    let lead = k.min(0xFFFF) as u16;
                    enc_data(fid, false, &[RawDatagram { seq: pbase.wrapping_add(k) & 0xFFFFF, ch: 0, wlead: lead, clead: lead, frag: 0, last: 0, data: vec![0x6B; len], enc: 2 }])
                } else if self.focus == 4 && self.rng.chance(0.9) {
                    // "slot reuse": complete packets with inconsistent parent leads (the receiver
                    // moves its window past packets it has received in full but cannot deliver),
                    // then the window is walked forward by one slot array (4096 ids) and new
                    // packets complete in the very slots of the passed ones
                    let (pbase, pwin, fbase_probe) = match probe {
                        Probe::Hc(h) => (h.rx_packet_base_id, h.rx_packet_window_size.max(1), Some(h.rx_frame_base_id)),
                        _ => (self.seen[victim].rx_packet_base.unwrap_or(0), 4096, None),
                    };
                    let fbase = fbase_probe.or(self.seen[victim].rx_frame_base).unwrap_or(0);
                    let fnext = self.flood_next.entry(victim).or_insert(fbase);
                    if fnext.wrapping_sub(fbase) > 1000 {
                        *fnext = fbase;
                    }
                    let fid = *fnext;
                    *fnext = fnext.wrapping_add(1);
                    let mk = |seq: u32, ch: u8, wlead: u16, clead: u16, len: usize| RawDatagram { seq: seq & 0xFFFFF, ch, wlead, clead, frag: 0, last: 0, data: vec![0xA5; len], enc: 2 };
                    if self.revisit.is_empty() || self.rng.chance(0.25) {
                        let l1 = self.rng.range(1, 1200) as usize;
                        let l2 = self.rng.range(1, 200) as usize;
                        let a = pbase.wrapping_add(1);
                        let b = pbase.wrapping_add(2);
                        self.revisit.push(a & 0xFFFFF);
                        self.revisit.push(b & 0xFFFFF);
                        let (w2, c2) = *self.rng.pick(&[(1u16, 2u16), (1, 1), (2, 2), (0, 2), (1, 0)]);
                        enc_data(fid, false, &[mk(a, 1, 0, 0, l1), mk(b, 0, w2, c2, l2)])
                    } else {
                        let tgt = (self.revisit[0] + 4096) & 0xFFFFF;
                        let delta = tgt.wrapping_sub(pbase) & 0xFFFFF;
                        if delta < pwin.min(4096) {
                            self.revisit.remove(0);
                            let len = self.rng.range(1, 600) as usize;
                            enc_data(fid, false, &[mk(tgt, self.rng.below(4) as u8, 0, 0, len)])
                        } else if delta >= 0x80000 {
                            self.revisit.remove(0);
                            enc_sync(None, None)
                        } else {
                            enc_sync(None, Some(pbase.wrapping_add(pwin.min(delta)) & 0xFFFFF))
                        }
                    }
                } else if self.focus == 3 && self.rng.chance(0.9) {
                    // "tail first": consecutive packet ids, each announced by its last fragment
                    // only, with little or no data
                    let fbase = self.seen[victim].rx_frame_base.or(self.seen[from].tx_frame).unwrap_or(0);
                    let pbase = match probe {
                        Probe::Hc(h) => h.rx_packet_base_id,
                        _ => self.seen[victim].rx_packet_base.unwrap_or(0),
                    };
                    let fnext = self.flood_next.entry(victim).or_insert(fbase);
                    let fid = *fnext;
                    *fnext = fnext.wrapping_add(1);
                    let pnext = self.flood_next.entry(victim + 1000).or_insert(pbase);
                    // stay inside the receive window
                    if pnext.wrapping_sub(pbase) & 0xFFFFF >= window.min(4096) {
                        *pnext = pbase;
                    }
                    let last = plan.param("hostile_tail_frags", 1.0) as u16;
                    let mut dgs = Vec::new();
                    let mut size = 10;
                    for _ in 0..self.rng.range(1, 40) {
                        let len = if self.rng.chance(0.5) { 0 } else { self.rng.range(0, 30) as usize };
                        size += 16 + len;
                        if size > 1400 {
                            break;
                        }
                        dgs.push(RawDatagram { seq: *pnext & 0xFFFFF, ch: 0, wlead: 0, clead: 0, frag: last, last, data: vec![0x5A; len], enc: 2 });
                        *pnext = pnext.wrapping_add(1) & 0xFFFFF;
                    }
                    enc_data(fid, false, &dgs)
                } else if self.focus == 7 {
                    // one packet at the window base whose size is 52-100 % of the victim's limit:
                    // full fragments in ascending order, one per frame, as a uflow sender emits
                    // them - and the last one never
                    let limit = match &plan.endpoints[victim].kind {
                        EndpointKind::Hc { spec, .. } => spec.rx_alloc_limit,
                        _ => 1_000_000,
                    };
                    let n_max = ((limit + 1447) / 1448).clamp(2, 65536);
                    let n = (n_max * plan.param("growing_permille", 1000.0) as u64 / 1000).clamp(2, 65536);
                    let fbase = self.seen[victim].rx_frame_base.or(self.seen[from].tx_frame).unwrap_or(0);
                    let pbase = match probe {
                        Probe::Hc(h) => h.rx_packet_base_id,
                        _ => self.seen[victim].rx_packet_base.unwrap_or(0),
                    };
                    let fnext = self.flood_next.entry(victim).or_insert(fbase);
                    let fid = *fnext;
                    *fnext = fnext.wrapping_add(1);
                    let p = *self.flood_next.entry(victim + 1000).or_insert(pbase);
                    let knext = self.flood_next.entry(victim + 2000).or_insert(0);
                    let k = (*knext as u64).min(n - 2);
                    *knext += 1;
                    enc_data(fid, false, &[RawDatagram { seq: p & 0xFFFFF, ch: 0, wlead: 0, clead: 0, frag: k as u16, last: (n - 1) as u16, data: vec![0x5A; 1448], enc: 2 }])
                } else if self.focus == 1 && self.rng.chance(0.85) {
                    let mut view = self.seen[victim].clone();
                    if let Some(p) = self.seen[from].tx_packet {
                        view.rx_packet_base.get_or_insert(p);
                    }
                    // keep drawing until it is a data frame
                    let mut b = hostile_frame(&mut self.rng, &view, window, self.allow_big);
                    let mut tries = 0;
                    while b.first() != Some(&10) && tries < 20 {
                        b = hostile_frame(&mut self.rng, &view, window, self.allow_big);
                        tries += 1;
                    }
                    b
                } else if self.replay_p > 0.0 && !self.recorded.is_empty() && self.rng.chance(self.replay_p) {
                    // replay of a genuine frame at a later time
                    self.recorded[self.rng.below(self.recorded.len() as u64) as usize].1.clone()
                } else {
                    // what the victim expects to receive is what the victim itself announced
                    let mut view = self.seen[victim].clone();
                    // frames from the claimed source tell us the ids the victim expects next
                    if let Some(f) = self.seen[from].tx_frame {
                        view.rx_frame_base.get_or_insert(f);
                    }
                    if let Some(p) = self.seen[from].tx_packet {
                        view.rx_packet_base.get_or_insert(p);
                    }
                    hostile_frame(&mut self.rng, &view, window, self.allow_big)
                };
                let dt = if self.rng.chance(0.7) { 0 } else { self.rng.below(200_000) };
                out.push(TimedOp { t_us: now_us + dt, rank: DELIVER_RANK_PUB, op: Op::Inject { to: victim, from, bytes, twin: false } });
                self.count += 1;
            }
        }
    }
}

pub const DELIVER_RANK_PUB: u32 = 0x8000_0001;

pub fn _unused() -> u64 {
    key(&[0])
}

// ---------------------------------------------------------------------------------------------

/// C01, packet-id cycle: remembers the first data frames of a long stream and delivers copies of
/// them again when the receiver's packet window has come round to the same 20-bit ids (the
/// frames' 32-bit frame ids are by then far behind the frame window).
pub struct CycleReplayer {
    sender: usize,
    receiver: usize,
    p0: u32,
    recorded: Vec<Vec<u8>>,
    volleys: u32,
}

impl CycleReplayer {
    pub fn new(plan: &Plan, sender: usize, receiver: usize) -> Self {
        let p0 = match &plan.endpoints[receiver].kind {
            EndpointKind::Hc { spec, .. } => spec.rx_packet_base_id,
            _ => 0,
        };
        Self { sender, receiver, p0, recorded: Vec::new(), volleys: 0 }
    }
}

impl Adversary for CycleReplayer {
    fn on_wire(&mut self, w: &WireRec, _now_us: u64, _plan: &Plan, _out: &mut Vec<TimedOp>) {
        if w.src == self.sender && w.bytes.first() == Some(&10) && self.recorded.len() < 120 {
            self.recorded.push((*w.bytes).clone());
        }
    }

    fn on_call_end(&mut self, _call: u64, ep: Option<usize>, probe: &Probe, now_us: u64, plan: &Plan, out: &mut Vec<TimedOp>) {
        if ep != Some(self.receiver) || now_us >= plan.end_us || self.volleys >= 4 {
            return;
        }
        let Probe::Hc(h) = probe else { return };
        let progress = h.rx_packet_base_id.wrapping_sub(self.p0) & 0xFFFFF;
        let marks = [0x100000 - 4000, 0x100000 - 2500, 0x100000 - 1000, 0x100000 - 100];
        if progress >= marks[self.volleys as usize] && progress < 0x100000 - 10 || (self.volleys > 0 && progress < 0x1000) {
            self.volleys += 1;
            for (i, b) in self.recorded.iter().enumerate() {
                out.push(TimedOp { t_us: now_us + 1 + i as u64, rank: DELIVER_RANK_PUB, op: Op::Inject { to: self.receiver, from: self.sender, bytes: b.clone(), twin: false } });
            }
        }
    }
}

/// C04's hostile middlebox: once a genuine fragment of a multi-fragment packet has been let
/// through (links in this scenario preserve order, so it has reached the receiver first), later
/// genuine frames that have room are re-encoded in transit with one more, forged datagram for the
/// same packet whose header disagrees with the genuine one (other last-fragment id, channel or
/// parent leads) and which targets the packet's last fragment slot.
pub struct Rewriter {
    rng: Rng,
    /// (src ep, packet id) -> (channel, wlead, clead, last) of packets with a fragment let through
    in_progress: std::collections::BTreeMap<(usize, u32), (u8, u16, u16, u16)>,
    rate: f64,
}

impl Rewriter {
    pub fn new(plan: &Plan) -> Self {
        let mut rng = Rng::keyed(&[plan.fate_seed.unwrap_or(0), 0x72657772]);
        let rate = *rng.pick(&[0.2, 0.5, 1.0]);
        Self { rng, in_progress: Default::default(), rate }
    }
}

impl Adversary for Rewriter {
    fn rewrite(&mut self, src: usize, _dst: usize, bytes: &[u8], fate: &Fate, plan: &Plan) -> Option<Vec<u8>> {
        if !matches!(plan.endpoints[src].kind, EndpointKind::Hc { .. }) {
            return None;
        }
        let Some(uv::Frame::DataFrame(f)) = uv::Frame::read(bytes) else { return None };
        let clean = fate.copies.iter().any(|c| c.flips.is_empty() && c.trunc.is_none());
        let mut result = None;
        let room = uflow::MAX_FRAME_SIZE.saturating_sub(bytes.len());
        if clean && room >= 16 && f.datagrams.len() < 100 && self.rng.chance(self.rate) {
            let cands: Vec<((usize, u32), (u8, u16, u16, u16))> = self.in_progress.iter().filter(|((s, _), _)| *s == src).map(|(k, v)| (*k, *v)).collect();
            if !cands.is_empty() {
                let ((_, pid), (ch, wl, cl, last)) = cands[self.rng.below(cands.len() as u64) as usize];
                let len = self.rng.range(1, (room - 14).min(40) as u64) as usize;
                let mut d = RawDatagram { seq: pid, ch, wlead: wl, clead: cl, frag: last, last, data: vec![0xEE; len], enc: 2 };
                match self.rng.below(8) {
                    0 => d.ch = (ch + 1) % 64,
                    1 => d.wlead = wl.wrapping_add(1),
                    2 => d.clead = if cl == 0 { wl.max(1) } else { cl + 1 },
                    // smaller leads than the genuine ones (where there is room below)
                    5 if cl > 0 => d.clead = if self.rng.chance(0.5) { cl - 1 } else { 0 },
                    6 if wl > 0 => {
                        d.wlead = wl - 1;
                        d.clead = cl.min(wl - 1);
                    }
                    5 | 6 | 7 => d.ch = (ch + 63) % 64,
                    3 => {
                        d.last = last + 1;
                        d.frag = last + 1;
                    }
                    _ => {
                        d.last = last - 1;
                        d.frag = last - 1;
                    }
                }
                let mut dgs: Vec<RawDatagram> = f
                    .datagrams
                    .iter()
                    .map(|g| RawDatagram {
                        seq: g.sequence_id,
                        ch: g.channel_id,
                        wlead: g.window_parent_lead,
                        clead: g.channel_parent_lead,
                        frag: g.fragment_id,
                        last: g.fragment_id_last,
                        data: g.data.to_vec(),
                        enc: if g.fragment_id_last == 0 && g.data.len() < 64 && g.window_parent_lead < 128 && g.channel_parent_lead < 256 { 0 } else if g.fragment_id_last == 0 && g.data.len() < 256 { 1 } else { 2 },
                    })
                    .collect();
                if self.rng.chance(0.5) {
                    dgs.insert(0, d);
                } else {
                    dgs.push(d);
                }
                let out = enc_data(f.sequence_id, f.nonce, &dgs);
                if out.len() <= uflow::MAX_FRAME_SIZE {
                    result = Some(out);
                }
            }
        }
        // learn about packets in progress (this frame's genuine fragments reach the receiver)
        if clean {
            for g in f.datagrams.iter() {
                if g.fragment_id_last > 0 {
                    self.in_progress.entry((src, g.sequence_id)).or_insert((g.channel_id, g.window_parent_lead, g.channel_parent_lead, g.fragment_id_last));
                }
            }
            if self.in_progress.len() > 64 {
                let k = *self.in_progress.keys().next().unwrap();
                self.in_progress.remove(&k);
            }
        }
        result
    }

    fn on_wire(&mut self, _w: &WireRec, _now_us: u64, _plan: &Plan, _out: &mut Vec<TimedOp>) {}
}

// ---------------------------------------------------------------------------------------------

/// World B attacker: raw sockets that complete the handshake by hand (so they are *connected*
/// peers that know nonces and sequence numbers) and then fire crafted frames at the server from
/// their own addresses, next to unconnected sockets sending arbitrary frames.
pub struct ConnectedAttacker {
    rng: Rng,
    server: usize,
    raws: Vec<usize>,
    view: std::collections::BTreeMap<usize, Seen>,
    syn_nonce: std::collections::BTreeMap<usize, u32>,
    connected: std::collections::BTreeSet<usize>,
    wants_connect: std::collections::BTreeSet<usize>,
    count: u64,
    max: u64,
    until_us: u64,
    rate: f64,
    burst_max: u64,
    allow_big: bool,
}

impl ConnectedAttacker {
    pub fn new(plan: &Plan) -> Self {
        let mut rng = Rng::keyed(&[plan.fate_seed.unwrap_or(0), 0x63617474]);
        let server = plan.endpoints.iter().position(|e| matches!(e.kind, EndpointKind::Server { .. })).unwrap_or(0);
        let raws: Vec<usize> = plan.endpoints.iter().enumerate().filter(|(_, e)| matches!(e.kind, EndpointKind::Raw)).map(|(i, _)| i).collect();
        let wants_connect = raws.iter().cloned().filter(|_| rng.chance(0.7)).collect();
        let rate = *rng.pick(&[0.05, 0.2, 0.6]);
        let burst_max = *rng.pick(&[1u64, 4, 20]);
        Self {
            rng,
            server,
            raws,
            view: Default::default(),
            syn_nonce: Default::default(),
            connected: Default::default(),
            wants_connect,
            count: 0,
            max: plan.param("hostile_max", 500.0) as u64,
            until_us: plan.param("hostile_until_us", 0.0) as u64,
            rate,
            burst_max,
            allow_big: plan.param("hostile_big", 0.0) != 0.0,
        }
    }
}

impl Adversary for ConnectedAttacker {
    fn on_wire(&mut self, w: &WireRec, now_us: u64, _plan: &Plan, out: &mut Vec<TimedOp>) {
        let Some(dst) = w.dst else { return };
        if w.src != self.server || !self.raws.contains(&dst) {
            return;
        }
        // what the server tells the attacker about its side of their connection
        let v = self.view.entry(dst).or_default();
        v.observe(&w.bytes);
        if let Some(uv::Frame::HandshakeSynAckFrame(f)) = uv::Frame::read(&w.bytes) {
            if Some(f.nonce_ack) == self.syn_nonce.get(&dst).cloned() && !self.connected.contains(&dst) && now_us < self.until_us {
                // complete the handshake by hand
                self.connected.insert(dst);
                v.tx_frame = Some(f.nonce);
                v.tx_packet = Some(f.nonce & 0xFFFFF);
                v.rx_frame_base = Some(f.nonce_ack);
                v.rx_packet_base = Some(f.nonce_ack & 0xFFFFF);
                let dt = self.rng.below(100_000);
                out.push(TimedOp { t_us: now_us + dt, rank: DELIVER_RANK_PUB, op: Op::Inject { to: self.server, from: dst, bytes: enc_hs_ack(f.nonce), twin: true } });
            }
        }
    }

    fn on_call_end(&mut self, _call: u64, ep: Option<usize>, _probe: &Probe, now_us: u64, plan: &Plan, out: &mut Vec<TimedOp>) {
        if ep != Some(self.server) || now_us >= self.until_us || self.count >= self.max {
            return;
        }
        for raw in self.raws.clone() {
            if self.wants_connect.contains(&raw) && !self.syn_nonce.contains_key(&raw) {
                let nonce = if self.rng.chance(0.3) { 0u32.wrapping_sub(self.rng.below(5000) as u32) } else { self.rng.u32() };
                self.syn_nonce.insert(raw, nonce);
                let (mut rate, mut pkt, mut alloc) = match &plan.endpoints[self.server].kind {
                    EndpointKind::Server { cfg, .. } => (2_000_000u32, cfg.max_receive_alloc.min(1000) as u32, cfg.max_packet_size.max(1000).min(u32::MAX as u64) as u32),
                    _ => (2_000_000, 1000, 1_000_000),
                };
                // limits at the edge of what the server accepts (and sometimes beyond: then the
                // request is refused and the attacker stays unconnected)
                if self.rng.chance(0.4) {
                    rate = *self.rng.pick(&[0u32, 1, 22, 23, 1472, 100_000, u32::MAX]);
                }
                if self.rng.chance(0.3) {
                    pkt = *self.rng.pick(&[0u32, 1, pkt, pkt.saturating_add(1), u32::MAX]);
                }
                if self.rng.chance(0.3) {
                    alloc = *self.rng.pick(&[alloc.saturating_sub(1000).max(1), alloc, alloc.saturating_add(1), u32::MAX]);
                }
                out.push(TimedOp { t_us: now_us, rank: DELIVER_RANK_PUB, op: Op::Inject { to: self.server, from: raw, bytes: enc_syn(3, nonce, rate, pkt, alloc, 1472), twin: true } });
                continue;
            }
            if !self.rng.chance(self.rate) {
                continue;
            }
            let n = self.rng.range(1, self.burst_max);
            for _ in 0..n {
                let view = self.view.get(&raw).cloned().unwrap_or_default();
                // what the server expects from the attacker is what it announced to it
                let bytes = hostile_frame(&mut self.rng, &view, 4096, self.allow_big);
                let dt = if self.rng.chance(0.7) { 0 } else { self.rng.below(200_000) };
                out.push(TimedOp { t_us: now_us + dt, rank: DELIVER_RANK_PUB, op: Op::Inject { to: self.server, from: raw, bytes, twin: true } });
                self.count += 1;
            }
        }
    }
}

// ---------------------------------------------------------------------------------------------
// A hostile *server*: the raw socket a genuine client connects to. It answers the client's
// connection request by hand - echoing its nonce, with negotiated limits from the boundary set a
// peer can put on the wire (0, 1, a fragment, 2^32-1) - and then behaves like the connected
// hostile peer: crafted data / sync / ack / handshake / disconnect frames computed from what the
// client tells it.
pub struct HostileServer {
    rng: Rng,
    raw: usize,
    client: usize,
    view: Seen,
    answered: u64,
    nonce: u32,
    count: u64,
    max: u64,
    until_us: u64,
    rate: f64,
    burst_max: u64,
    allow_big: bool,
    /// how the connection request is answered: 0 = properly, 1 = twice with different limits,
    /// 2 = with a refusal after the SYN-ACK, 3 = late (after several repeats of the request)
    style: u64,
}

impl HostileServer {
    pub fn new(plan: &Plan) -> Self {
        let mut rng = Rng::keyed(&[plan.fate_seed.unwrap_or(0), 0x68737276]);
        let raw = plan.endpoints.iter().position(|e| matches!(e.kind, EndpointKind::Raw)).unwrap_or(0);
        let client = plan.endpoints.iter().position(|e| matches!(e.kind, EndpointKind::Client { .. })).unwrap_or(0);
        let rate = *rng.pick(&[0.05, 0.2, 0.6]);
        let burst_max = *rng.pick(&[1u64, 4, 20]);
        let nonce = if rng.chance(0.3) { 0u32.wrapping_sub(rng.below(5000) as u32) } else { rng.u32() };
        let style = rng.below(4);
        Self { rng, raw, client, view: Seen::default(), answered: 0, nonce, count: 0, max: plan.param("hostile_max", 500.0) as u64, until_us: plan.param("hostile_until_us", 0.0) as u64, rate, burst_max, allow_big: plan.param("hostile_big", 0.0) != 0.0, style }
    }

    fn limits(&mut self) -> (u32, u32, u32) {
        let r = &mut self.rng;
        let rate = *r.pick(&[0u32, 1, 22, 23, 1472, 100_000, 2_000_000, u32::MAX]);
        let pkt = *r.pick(&[0u32, 1, 1000, 1448, 1449, 1_000_000, u32::MAX]);
        let alloc = *r.pick(&[0u32, 1, 100, 1448, 1449, 5000, 1_000_000, u32::MAX]);
        (rate, pkt, alloc)
    }
}

impl Adversary for HostileServer {
    fn on_wire(&mut self, w: &WireRec, now_us: u64, _plan: &Plan, out: &mut Vec<TimedOp>) {
        if w.src != self.client || w.dst != Some(self.raw) {
            return;
        }
        self.view.observe(&w.bytes);
        if let Some(uv::Frame::HandshakeSynFrame(f)) = uv::Frame::read(&w.bytes) {
            self.answered += 1;
            if self.style == 3 && self.answered < 3 {
                return;
            }
            if self.answered > 4 {
                return;
            }
            let (rate, pkt, alloc) = self.limits();
            let nonce_ack = if self.rng.chance(0.9) { f.nonce } else { f.nonce ^ (1 << self.rng.below(32)) };
            self.view.tx_frame = Some(f.nonce);
            self.view.tx_packet = Some(f.nonce & 0xFFFFF);
            self.view.rx_frame_base = Some(self.nonce);
            self.view.rx_packet_base = Some(self.nonce & 0xFFFFF);
            let dt = self.rng.below(100_000);
            out.push(TimedOp { t_us: now_us + dt, rank: DELIVER_RANK_PUB, op: Op::Inject { to: self.client, from: self.raw, bytes: enc_syn_ack(nonce_ack, self.nonce, rate, pkt, alloc), twin: true } });
            match self.style {
                1 => {
                    let (rate, pkt, alloc) = self.limits();
                    let n2 = if self.rng.chance(0.5) { self.nonce } else { self.nonce.wrapping_add(1) };
                    out.push(TimedOp { t_us: now_us + dt + self.rng.below(50_000), rank: DELIVER_RANK_PUB, op: Op::Inject { to: self.client, from: self.raw, bytes: enc_syn_ack(nonce_ack, n2, rate, pkt, alloc), twin: true } });
                }
                2 => {
                    let kind = self.rng.below(4) as u8;
                    out.push(TimedOp { t_us: now_us + dt + self.rng.below(2_000_000), rank: DELIVER_RANK_PUB, op: Op::Inject { to: self.client, from: self.raw, bytes: enc_hs_err(f.nonce, kind), twin: true } });
                }
                _ => (),
            }
        }
    }

    fn on_call_end(&mut self, _call: u64, ep: Option<usize>, _probe: &Probe, now_us: u64, _plan: &Plan, out: &mut Vec<TimedOp>) {
        if ep != Some(self.client) || now_us >= self.until_us || self.count >= self.max || self.answered == 0 {
            return;
        }
        if !self.rng.chance(self.rate) {
            return;
        }
        let n = self.rng.range(1, self.burst_max);
        for _ in 0..n {
            let bytes = hostile_frame(&mut self.rng, &self.view, 4096, self.allow_big);
            let dt = if self.rng.chance(0.7) { 0 } else { self.rng.below(200_000) };
            out.push(TimedOp { t_us: now_us + dt, rank: DELIVER_RANK_PUB, op: Op::Inject { to: self.client, from: self.raw, bytes, twin: true } });
            self.count += 1;
        }
    }
}
