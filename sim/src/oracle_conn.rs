//! Connection-level oracles for World B (real Client / Server): event-stream automaton (C08),
//! nonce-validated handshake (C07), server limits (C17), amplification (C18).

use crate::plan::*;
use crate::world::*;
use std::collections::{BTreeMap, BTreeSet};
use std::net::SocketAddr;
use uflow::verif as uv;
use uflow::verif::trace::Event as T;
use uflow::verif::Serialize;

fn viol(property: &str, clause: &str, detail: String, at_call: u64) -> Option<Violation> {
    Some(Violation { property: property.to_string(), clause: clause.to_string(), detail, at_call })
}

fn err_name(k: u8) -> &'static str {
    match k {
        ERR_TIMEOUT => "Timeout",
        ERR_VERSION => "Version",
        ERR_CONFIG => "Config",
        _ => "ServerFull",
    }
}

// ------------------------------------------------------------------------------------------ C08

#[derive(Clone, Copy, Debug, PartialEq)]
enum St {
    Idle,
    Connected,
    Ended,
}

/// Per (endpoint, peer address) automaton fed with every event returned by step().
pub struct EventAutomaton {
    property: &'static str,
    states: BTreeMap<(usize, Option<SocketAddr>), St>,
    terminal_events: u64,
    connects: u64,
    receives: u64,
    events_after_drop_checked: u64,
    drops: u64,
    reconnects: u64,
    crossing_disconnects: u64,
    disconnect_calls: BTreeMap<usize, u64>,
    /// (server, address) pairs to which the server has answered a connection request (SYN-ACK or
    /// refusal) since the address' previous connection ended
    /// value: (answers not yet matched by an Error event, call of the latest answer, answers in that call)
    attempts: BTreeMap<(usize, SocketAddr), (u64, u64, u64)>,
    /// events handed out by the call in progress: (call, number, connections, terminal events)
    cur: (u64, u64, std::collections::BTreeSet<Option<SocketAddr>>, u64),
    max_events_in_one_step: u64,
    busy_steps: u64,
}

impl EventAutomaton {
    pub fn new(property: &'static str) -> Self {
        Self { property, states: BTreeMap::new(), terminal_events: 0, connects: 0, receives: 0, events_after_drop_checked: 0, drops: 0, reconnects: 0, crossing_disconnects: 0, disconnect_calls: BTreeMap::new(), attempts: BTreeMap::new(), cur: (0, 0, Default::default(), 0), max_events_in_one_step: 0, busy_steps: 0 }
    }
}

impl Oracle for EventAutomaton {
    fn on(&mut self, rec: &Rec, cx: &Cx) -> Option<Violation> {
        let prop = self.property;
        match rec {
            Rec::Call { op: Op::Create { ep }, skipped: false, .. } => {
                // a new object: its streams start afresh
                let ep = *ep;
                self.states.retain(|(e, _), _| *e != ep);
            }
            Rec::Call { op: Op::ServerDrop { ep, to }, skipped: false, .. } => {
                // documented: forgets the connection immediately, no event
                self.drops += 1;
                let key = (*ep, Some(cx.addrs[*to]));
                if let Some(s) = self.states.get_mut(&key) {
                    if *s == St::Connected {
                        *s = St::Ended;
                        self.attempts.remove(&(*ep, cx.addrs[*to]));
                    }
                }
            }
            Rec::Call { op: Op::Disconnect { ep, .. } | Op::DisconnectNow { ep, .. }, skipped: false, .. } => {
                *self.disconnect_calls.entry(*ep).or_insert(0) += 1;
                if self.disconnect_calls.len() >= 2 {
                    self.crossing_disconnects += 1;
                }
            }
            Rec::Wire(w) => {
                if matches!(cx.plan.endpoints[w.src].kind, EndpointKind::Server { .. }) && matches!(w.bytes.first(), Some(&FRAME_SYN_ACK) | Some(&FRAME_HS_ERR)) {
                    let e = self.attempts.entry((w.src, w.dst_addr)).or_insert((0, w.call, 0));
                    if e.1 != w.call {
                        *e = (e.0, w.call, 0);
                    }
                    e.0 += 1;
                    e.2 += 1;
                }
            }
            Rec::Event { call, ep, peer_addr, ev, .. } => {
                if self.cur.0 != *call {
                    self.cur = (*call, 0, Default::default(), 0);
                }
                self.cur.1 += 1;
                self.cur.2.insert(*peer_addr);
                self.cur.3 += matches!(ev, AppEvent::Disconnect | AppEvent::Error(_)) as u64;
                self.max_events_in_one_step = self.max_events_in_one_step.max(self.cur.1);
                if self.cur.1 == 21 && self.cur.2.len() >= 2 {
                    self.busy_steps += 1;
                }
                let key = (*ep, *peer_addr);
                let st = *self.states.get(&key).unwrap_or(&St::Idle);
                if let (Some(a), AppEvent::Disconnect | AppEvent::Error(_), St::Connected) = (peer_addr, ev, st) {
                    // whatever the server answered before this connection ended belongs to it
                    // (events are handed out at the end of the step() that produced them: an
                    // answer put on the wire during this very call may follow the ending)
                    if let Some(e) = self.attempts.get_mut(&(*ep, *a)) {
                        e.0 = if e.1 == *call { e.0.min(e.2) } else { 0 };
                    }
                }
                let who = match peer_addr {
                    Some(a) => format!("endpoint {} (peer {})", ep, a),
                    None => format!("endpoint {}", ep),
                };
                match ev {
                    AppEvent::Connect => {
                        self.connects += 1;
                        if st == St::Connected {
                            return viol(prop, "connect_while_connected", format!("{}: Connect reported for a connection that is already established", who), *call);
                        }
                        if st == St::Ended {
                            self.reconnects += 1;
                            // a client object has exactly one connection in its life
                            if peer_addr.is_none() {
                                return viol(prop, "event_after_terminal", format!("{}: Connect after the connection's terminal event", who), *call);
                            }
                        }
                        self.states.insert(key, St::Connected);
                    }
                    AppEvent::Receive(_) => {
                        self.receives += 1;
                        if st != St::Connected {
                            let clause = if st == St::Ended { "event_after_terminal" } else { "receive_without_connect" };
                            return viol(prop, clause, format!("{}: Receive reported while the connection is {:?}", who, st), *call);
                        }
                    }
                    AppEvent::Disconnect => {
                        if st != St::Connected {
                            let clause = if st == St::Ended { "event_after_terminal" } else { "disconnect_without_connect" };
                            return viol(prop, clause, format!("{}: Disconnect reported while the connection is {:?}", who, st), *call);
                        }
                        self.terminal_events += 1;
                        self.states.insert(key, St::Ended);
                    }
                    AppEvent::Error(k) => {
                        match st {
                            St::Connected => {
                                if *k != ERR_TIMEOUT {
                                    return viol(prop, "handshake_error_while_connected", format!("{}: Error({}) reported for an established connection", who, err_name(*k)), *call);
                                }
                                self.terminal_events += 1;
                                self.states.insert(key, St::Ended);
                            }
                            St::Idle => {
                                // handshake failed: terminal for a client, informational on a server
                                self.states.insert(key, St::Ended);
                            }
                            St::Ended => {
                                if peer_addr.is_none() {
                                    return viol(prop, "event_after_terminal", format!("{}: Error({}) after the connection's terminal event", who, err_name(*k)), *call);
                                }
                                // server: handshake errors for an address whose previous connection
                                // has ended are a new (failed) handshake - if there was one
                                if let Some(a) = peer_addr {
                                    let left = self.attempts.get_mut(&(*ep, *a)).map_or(false, |e| {
                                        let ok = e.0 > 0;
                                        e.0 = e.0.saturating_sub(1);
                                        ok
                                    });
                                    if !left {
                                        return viol(prop, "event_after_terminal", format!("{}: Error({}) after the connection's terminal event, although the server has not answered any new connection request from that address since", who, err_name(*k)), *call);
                                    }
                                }
                            }
                        }
                    }
                }
                self.events_after_drop_checked += 1;
            }
            _ => (),
        }
        None
    }

    fn reach(&self, out: &mut BTreeMap<String, u64>) {
        let mut a = |k: &str, v: u64| *out.entry(k.to_string()).or_insert(0) += v;
        a("events_checked", self.events_after_drop_checked);
        a("connect_events", self.connects);
        a("receive_events", self.receives);
        a("terminal_events", self.terminal_events);
        a("server_drop_calls", self.drops);
        a("reconnects_after_terminal_event", self.reconnects);
        a("runs_with_disconnect_calls_on_both_sides", (self.crossing_disconnects > 0) as u64);
        a("steps_returning_more_than_20_events_of_several_connections", self.busy_steps);
        let m = out.entry("max_events_returned_by_one_step".to_string()).or_insert(0);
        *m = (*m).max(self.max_events_in_one_step);
    }

    fn nontrivial(&self) -> bool {
        self.connects >= 1
    }
}

// ------------------------------------------------------------------------------------------ C07

#[derive(Clone, Debug, PartialEq)]
struct HcCfg {
    tx_frame_base_id: u32,
    rx_frame_base_id: u32,
    tx_packet_base_id: u32,
    rx_packet_base_id: u32,
    tx_bandwidth_limit: u32,
    tx_alloc_limit: usize,
    rx_alloc_limit: usize,
}

pub struct HandshakeOracle {
    property: &'static str,
    /// server nonces sent in SYN-ACKs, per (server ep, client address)
    synack_sent: BTreeMap<(usize, SocketAddr), BTreeSet<u32>>,
    /// nonces acknowledged by HS-ACK frames the server consumed, per (server ep, source address)
    acks_consumed: BTreeMap<(usize, SocketAddr), BTreeSet<u32>>,
    /// nonce of the SYNs each client endpoint sent (current incarnation)
    syn_nonce: BTreeMap<usize, u32>,
    /// nonce_acks of SYN-ACKs a client consumed from its server's address
    synack_consumed: BTreeMap<usize, BTreeSet<u32>>,
    /// handshake configuration per half connection id
    cfgs: BTreeMap<u64, HcCfg>,
    /// hc id of the client side, per client ep; of the server side, per (server, client ep)
    client_hc: BTreeMap<usize, u64>,
    server_hc: BTreeMap<(usize, usize), u64>,
    pending_server_hcs: Vec<u64>,
    connects_client: BTreeMap<usize, u64>,
    connects_server: BTreeMap<(usize, SocketAddr), u64>,
    errors_client: BTreeMap<usize, u8>,
    /// (server, address, nonce) of delivered connection requests of a foreign protocol version
    foreign_syns: BTreeSet<(usize, SocketAddr, u32)>,
    /// addresses for which a server reported a terminal event (Disconnect or Error)
    ended_server: BTreeSet<(usize, SocketAddr)>,
    pairs_checked: u64,
    connects_checked: u64,
    forged_seen: u64,
    refused_checked: u64,
    /// creation time of each client's current incarnation, and the time it last stepped
    created_at: BTreeMap<usize, u64>,
    /// per (server, address): full-size, CRC-valid connection requests delivered with the right /
    /// a foreign protocol version
    syn_versions: BTreeMap<(usize, SocketAddr), (u64, u64)>,
    /// addresses with an established connection in each server's latest probe
    last_active: BTreeMap<usize, BTreeSet<SocketAddr>>,
    /// per client: (last client step, last server step, largest gap between consecutive steps of
    /// either) during the first 15 s of its current incarnation
    stepping: BTreeMap<usize, (u64, u64, u64)>,
    /// local clock (ns) of the call in progress, per endpoint
    cur_local: BTreeMap<usize, u64>,
    /// per (server, address) with an established connection: the server's local time (ns) when it
    /// last read a valid data, sync or ack frame from the address (establishment counts)
    heard: BTreeMap<(usize, SocketAddr), u64>,
    server_timeouts_checked: u64,
}

impl HandshakeOracle {
    pub fn new(property: &'static str) -> Self {
        Self {
            property,
            synack_sent: BTreeMap::new(),
            acks_consumed: BTreeMap::new(),
            syn_nonce: BTreeMap::new(),
            synack_consumed: BTreeMap::new(),
            cfgs: BTreeMap::new(),
            client_hc: BTreeMap::new(),
            server_hc: BTreeMap::new(),
            pending_server_hcs: Vec::new(),
            connects_client: BTreeMap::new(),
            connects_server: BTreeMap::new(),
            errors_client: BTreeMap::new(),
            ended_server: BTreeSet::new(),
            foreign_syns: BTreeSet::new(),
            pairs_checked: 0,
            connects_checked: 0,
            forged_seen: 0,
            refused_checked: 0,
            created_at: BTreeMap::new(),
            syn_versions: BTreeMap::new(),
            last_active: BTreeMap::new(),
            stepping: BTreeMap::new(),
            cur_local: BTreeMap::new(),
            heard: BTreeMap::new(),
            server_timeouts_checked: 0,
        }
    }

    fn check_pair(&mut self, client: usize, server: usize, cx: &Cx, call: u64) -> Option<Violation> {
        let prop = self.property;
        let (Some(ch), Some(sh)) = (self.client_hc.get(&client), self.server_hc.get(&(server, client))) else { return None };
        let (Some(c), Some(s)) = (self.cfgs.get(ch), self.cfgs.get(sh)) else { return None };
        self.pairs_checked += 1;
        if c.tx_frame_base_id != s.rx_frame_base_id || c.rx_frame_base_id != s.tx_frame_base_id || c.tx_packet_base_id != s.rx_packet_base_id || c.rx_packet_base_id != s.tx_packet_base_id {
            return viol(prop, "sequence_numbers_disagree", format!("client {} and server {} disagree on starting sequence numbers: client {:?}, server {:?}", client, server, c, s), call);
        }
        if let (EndpointKind::Client { cfg: cc, .. }, EndpointKind::Server { cfg: sc, .. }) = (&cx.plan.endpoints[client].kind, &cx.plan.endpoints[server].kind) {
            let cap = |x: u64| x.min(u32::MAX as u64);
            let c_rate = cap(cc.max_send_rate).min(cap(sc.max_receive_rate)) as u32;
            let s_rate = cap(sc.max_send_rate).min(cap(cc.max_receive_rate)) as u32;
            if c.tx_bandwidth_limit != c_rate || s.tx_bandwidth_limit != s_rate {
                return viol(prop, "negotiated_rate_wrong", format!("negotiated send ceilings {} (client) / {} (server), expected {} / {}", c.tx_bandwidth_limit, s.tx_bandwidth_limit, c_rate, s_rate), call);
            }
            if c.tx_alloc_limit as u64 != cap(sc.max_receive_alloc) || s.tx_alloc_limit as u64 != cap(cc.max_receive_alloc) || c.rx_alloc_limit as u64 != cc.max_receive_alloc || s.rx_alloc_limit as u64 != sc.max_receive_alloc {
                return viol(prop, "negotiated_alloc_wrong", format!("allocation limits: client tx {} rx {}, server tx {} rx {}; configured receive allocs: client {}, server {}", c.tx_alloc_limit, c.rx_alloc_limit, s.tx_alloc_limit, s.rx_alloc_limit, cc.max_receive_alloc, sc.max_receive_alloc), call);
            }
        }
        None
    }
}

impl HandshakeOracle {
    /// "Stale, duplicated or forged handshake frames never ... reset ... a connection": the only
    /// thing that lets a server give up an established connection on its own is the configured
    /// silence. Mirrors when each server last read a valid data, sync or ack frame from an address
    /// it is connected to; an Error(Timeout) for that address before active_timeout_ms have passed
    /// on the server's own clock means something else reset the connection.
    fn on_reset(&mut self, rec: &Rec, cx: &Cx) -> Option<Violation> {
        let prop = self.property;
        match rec {
            Rec::Call { ep: Some(ep), local_ns, op, skipped: false, .. } => {
                self.cur_local.insert(*ep, *local_ns);
                match op {
                    Op::Create { ep } | Op::Destroy { ep } => self.heard.retain(|(e, _), _| e != ep),
                    Op::ServerDrop { ep, to } => {
                        self.heard.remove(&(*ep, cx.addrs[*to]));
                    }
                    _ => (),
                }
            }
            Rec::Consumed { ep, src_addr, bytes, .. } if matches!(bytes.first(), Some(&FRAME_DATA) | Some(&FRAME_SYNC) | Some(&FRAME_ACK)) => {
                if let Some(h) = self.heard.get_mut(&(*ep, *src_addr)) {
                    if uv::Frame::read(bytes).is_some() {
                        *h = self.cur_local.get(ep).cloned().unwrap_or(*h);
                    }
                }
            }
            Rec::Event { call, ep, peer_addr: Some(a), ev, local_ns, .. } => {
                if let EndpointKind::Server { cfg, .. } = &cx.plan.endpoints[*ep].kind {
                    match ev {
                        AppEvent::Connect => {
                            self.heard.insert((*ep, *a), *local_ns);
                        }
                        AppEvent::Error(k) => {
                            if let Some(h) = self.heard.remove(&(*ep, *a)) {
                                if *k == ERR_TIMEOUT {
                                    self.server_timeouts_checked += 1;
                                    let quiet_ns = local_ns.saturating_sub(h);
                                    if quiet_ns < cfg.active_timeout_ms.saturating_sub(2) * 1_000_000 {
                                        return viol(prop, "established_connection_reset", format!("server {} gave up its established connection to {} with Error(Timeout) {} ms after it last read a valid data, sync or ack frame from that address (on its own clock); active_timeout_ms is {}: something other than the configured silence reset the connection", ep, a, quiet_ns / 1_000_000, cfg.active_timeout_ms), *call);
                                    }
                                }
                            }
                        }
                        AppEvent::Disconnect => {
                            self.heard.remove(&(*ep, *a));
                        }
                        _ => (),
                    }
                }
            }
            _ => (),
        }
        None
    }
}

impl Oracle for HandshakeOracle {
    fn on(&mut self, rec: &Rec, cx: &Cx) -> Option<Violation> {
        let prop = self.property;
        if let Some(v) = self.on_reset(rec, cx) {
            return Some(v);
        }
        match rec {
            Rec::Call { op: Op::Create { ep }, skipped: false, .. } => {
                // new incarnation of a client: its handshake starts over
                self.syn_nonce.remove(ep);
                self.synack_consumed.remove(ep);
                self.client_hc.remove(ep);
                self.connects_client.remove(ep);
                self.errors_client.remove(ep);
                self.created_at.insert(*ep, cx.now_ns);
                self.stepping.insert(*ep, (cx.now_ns, cx.now_ns, 0));
            }
            Rec::Call { op: Op::Destroy { ep }, skipped: false, .. } => {
                self.created_at.remove(ep);
            }
            Rec::Call { op: Op::Step { ep }, skipped: false, .. } => {
                let now = cx.now_ns;
                for (c, st) in self.stepping.iter_mut() {
                    let Some(&t0) = self.created_at.get(c) else { continue };
                    if now > t0 + 25_000_000_000 {
                        continue;
                    }
                    if c == ep {
                        st.2 = st.2.max(now - st.0);
                        st.0 = now;
                    } else if matches!(&cx.plan.endpoints[*c].kind, EndpointKind::Client { server, .. } if server == ep) {
                        st.2 = st.2.max(now - st.1);
                        st.1 = now;
                    }
                }
            }
            Rec::Delivered { dst, src_addr, bytes, accepted: true, .. } if bytes.first() == Some(&FRAME_SYN) && bytes.len() == 1472 && matches!(cx.plan.endpoints[*dst].kind, EndpointKind::Server { .. }) => {
                if let Some(uv::Frame::HandshakeSynFrame(f)) = uv::Frame::read(bytes) {
                    if f.version != 3 {
                        self.foreign_syns.insert((*dst, *src_addr, f.nonce));
                    }
                    let e = self.syn_versions.entry((*dst, *src_addr)).or_insert((0, 0));
                    if bytes[1] == 3 {
                        e.0 += 1;
                    } else {
                        e.1 += 1;
                    }
                }
            }
            Rec::Wire(w) => {
                match (w.bytes.first().copied(), &cx.plan.endpoints[w.src].kind) {
                    (Some(FRAME_SYN), EndpointKind::Client { .. }) => {
                        if let Some(uv::Frame::HandshakeSynFrame(f)) = uv::Frame::read(&w.bytes) {
                            self.syn_nonce.insert(w.src, f.nonce);
                        }
                    }
                    (Some(FRAME_SYN_ACK), EndpointKind::Server { .. }) => {
                        if let Some(uv::Frame::HandshakeSynAckFrame(f)) = uv::Frame::read(&w.bytes) {
                            self.synack_sent.entry((w.src, w.dst_addr)).or_default().insert(f.nonce);
                        }
                    }
                    (Some(FRAME_HS_ERR), EndpointKind::Server { .. }) => {
                        // a request of a foreign protocol version is refused as such, whatever
                        // else might be said against it (a full server, limits that do not fit)
                        if let Some(uv::Frame::HandshakeErrorFrame(f)) = uv::Frame::read(&w.bytes) {
                            if self.foreign_syns.contains(&(w.src, w.dst_addr, f.nonce_ack)) && f.error != uv::HandshakeErrorType::Version {
                                return viol(prop, "wrong_version_refused_with_other_error", format!("server {} answered the connection request of a foreign protocol version from {} (nonce {:08x}) with the error {:?} instead of Version", w.src, w.dst_addr, f.nonce_ack, f.error), w.call);
                            }
                        }
                    }
                    _ => (),
                }
            }
            Rec::Delivered { injected: true, .. } => {
                self.forged_seen += 1;
            }
            Rec::Consumed { ep, src_addr, bytes, .. } => match &cx.plan.endpoints[*ep].kind {
                EndpointKind::Server { .. } => {
                    if bytes.first() == Some(&FRAME_HS_ACK) {
                        if let Some(uv::Frame::HandshakeAckFrame(f)) = uv::Frame::read(bytes) {
                            self.acks_consumed.entry((*ep, *src_addr)).or_default().insert(f.nonce_ack);
                        }
                    }
                }
                EndpointKind::Client { server, .. } => {
                    if bytes.first() == Some(&FRAME_SYN_ACK) && *src_addr == cx.addrs[*server] {
                        if let Some(uv::Frame::HandshakeSynAckFrame(f)) = uv::Frame::read(bytes) {
                            self.synack_consumed.entry(*ep).or_default().insert(f.nonce_ack);
                        }
                    }
                }
                _ => (),
            },
            Rec::Trace { ep, hc, ev: T::HcCreated { tx_frame_base_id, rx_frame_base_id, tx_packet_base_id, rx_packet_base_id, tx_bandwidth_limit, tx_alloc_limit, rx_alloc_limit, .. }, .. } => {
                self.cfgs.insert(*hc, HcCfg { tx_frame_base_id: *tx_frame_base_id, rx_frame_base_id: *rx_frame_base_id, tx_packet_base_id: *tx_packet_base_id, rx_packet_base_id: *rx_packet_base_id, tx_bandwidth_limit: *tx_bandwidth_limit, tx_alloc_limit: *tx_alloc_limit, rx_alloc_limit: *rx_alloc_limit });
                match &cx.plan.endpoints[*ep].kind {
                    EndpointKind::Client { .. } => {
                        self.client_hc.insert(*ep, *hc);
                    }
                    EndpointKind::Server { .. } => self.pending_server_hcs.push(*hc),
                    _ => (),
                }
            }
            Rec::Event { call, ep, peer, peer_addr, ev, .. } => match (&cx.plan.endpoints[*ep].kind, ev) {
                (EndpointKind::Client { server, .. }, AppEvent::Connect) => {
                    self.connects_checked += 1;
                    let n = self.connects_client.entry(*ep).or_insert(0);
                    *n += 1;
                    if *n > 1 {
                        return viol(prop, "second_connect", format!("client {} reported Connect {} times for one handshake", ep, n), *call);
                    }
                    let own = self.syn_nonce.get(ep).cloned();
                    let ok = own.map_or(false, |o| self.synack_consumed.get(ep).map_or(false, |s| s.contains(&o)));
                    if !ok {
                        return viol(prop, "client_connect_without_own_nonce", format!("client {} reported Connect without having received a SYN-ACK from {} echoing its nonce {:?} (echoed nonces received: {:?})", ep, cx.addrs[*server], own, self.synack_consumed.get(ep)), *call);
                    }
                }
                (EndpointKind::Client { .. }, AppEvent::Error(k)) => {
                    self.errors_client.insert(*ep, *k);
                    // handshake refusals belong to the handshake: once the connection exists, a
                    // stale, duplicated or forged error frame must not end it
                    if *k != ERR_TIMEOUT && self.connects_client.get(ep).cloned().unwrap_or(0) > 0 {
                        return viol(prop, "connection_reset_by_handshake_frame", format!("client {} reported Error({}) after it had reported Connect: an established connection was ended by a handshake error frame", ep, err_name(*k)), *call);
                    }
                }
                (EndpointKind::Server { .. }, AppEvent::Disconnect | AppEvent::Error(_)) => {
                    if let Some(a) = peer_addr {
                        self.ended_server.insert((*ep, *a));
                    }
                }
                (EndpointKind::Server { .. }, AppEvent::Connect) => {
                    self.connects_checked += 1;
                    let a = peer_addr.unwrap();
                    let sent = self.synack_sent.get(&(*ep, a)).cloned().unwrap_or_default();
                    let acked = self.acks_consumed.get(&(*ep, a)).cloned().unwrap_or_default();
                    if sent.intersection(&acked).next().is_none() {
                        return viol(prop, "server_connect_without_nonce", format!("server {} reported Connect({}) although that address never returned a nonce the server sent it (sent {:?}, returned {:?})", ep, a, sent, acked), *call);
                    }
                    // a protocol version mismatch is refused: an address all of whose connection
                    // requests carried a foreign version can never be connected
                    if let Some((right, wrong)) = self.syn_versions.get(&(*ep, a)) {
                        if *right == 0 && *wrong > 0 {
                            return viol(prop, "wrong_version_client_connected", format!("server {} reported Connect({}) although every connection request from that address ({}) carried a foreign protocol version", ep, a, wrong), *call);
                        }
                    }
                    // nonces are per handshake: forget them so that a later connection from the
                    // same address needs its own
                    self.synack_sent.remove(&(*ep, a));
                    self.acks_consumed.remove(&(*ep, a));
                    *self.connects_server.entry((*ep, a)).or_insert(0) += 1;
                    let _ = peer;
                }
                _ => (),
            },
            Rec::Probe { call, ep, probe: Probe::Server(s), .. } => {
                self.last_active.insert(*ep, s.clients.iter().filter(|c| c.state == 1).map(|c| c.address).collect());
                // attribute freshly created server-side half connections to their clients
                if !self.pending_server_hcs.is_empty() {
                    let mut to_check = Vec::new();
                    for c in s.clients.iter() {
                        if let (Some(h), Some(peer)) = (&c.hc, cx.ep_of(&c.address)) {
                            if self.pending_server_hcs.contains(&h.verif_id) {
                                self.server_hc.insert((*ep, peer), h.verif_id);
                                to_check.push(peer);
                            }
                        }
                    }
                    self.pending_server_hcs.clear();
                    for peer in to_check {
                        if matches!(cx.plan.endpoints[peer].kind, EndpointKind::Client { .. }) {
                            if let Some(v) = self.check_pair(peer, *ep, cx, *call) {
                                return Some(v);
                            }
                        }
                    }
                }
            }
            Rec::End { .. } => {
                // on a link that eventually lets handshake frames through, every compatible client
                // ends up connected on both sides (retries of SYN, SYN-ACK and ACK complete it)
                if cx.plan.param("handshake_link_clean", 0.0) != 0.0 {
                    for (ep, e) in cx.plan.endpoints.iter().enumerate() {
                        let EndpointKind::Client { server, .. } = &e.kind else { continue };
                        if cx.plan.param(&format!("expect_error_ep{}", ep), -1.0) >= 0.0 {
                            continue;
                        }
                        // only clients (and servers) that were created and kept stepping for 25 s
                        let Some(&t0) = self.created_at.get(&ep) else { continue };
                        let Some(&(lc, ls, gap)) = self.stepping.get(&ep) else { continue };
                        if lc < t0 + 24_000_000_000 || ls < t0 + 24_000_000_000 || gap > 1_000_000_000 {
                            continue;
                        }
                        let c_ok = self.connects_client.get(&ep).cloned().unwrap_or(0) == 1;
                        // when only the server's very last transmission gets through, the client's
                        // own budget may run out first: then the claim is only that a client which
                        // did connect is connected on the server side as well
                        if !c_ok && cx.plan.param(&format!("synack_outage_ep{}", ep), 0.0) >= 10.0 {
                            continue;
                        }
                        let s_ok = self.connects_server.get(&(*server, cx.addrs[ep])).cloned().unwrap_or(0) >= 1;
                        // ... and stays connected: nothing in this family ends a connection
                        if c_ok && s_ok && self.errors_client.get(&ep).is_none() && !self.ended_server.contains(&(*server, cx.addrs[ep])) {
                            if let Some(active) = self.last_active.get(server) {
                                if !active.contains(&cx.addrs[ep]) {
                                    return viol(prop, "established_connection_vanished", format!("client {} and the server both reported Connect, nothing ended the connection, but at the end of the run the server no longer holds an established connection for {}", ep, cx.addrs[ep]), 0);
                                }
                            }
                        }
                        if !c_ok || !s_ok {
                            return viol(prop, "handshake_incomplete", format!("client {}: Connect reported by the client: {}, by the server: {} although every handshake frame could be retried on a link that lost only the first few datagrams of each direction (at most the first ten SYN-ACKs) (client error: {:?})", ep, c_ok, s_ok, self.errors_client.get(&ep).map(|k| err_name(*k))), 0);
                        }
                    }
                }
                // incompatible / wrong-version / refused clients: matching error, never Connect
                for (ep, e) in cx.plan.endpoints.iter().enumerate() {
                    if !matches!(e.kind, EndpointKind::Client { .. }) {
                        continue;
                    }
                    let want = cx.plan.param(&format!("expect_error_ep{}", ep), -1.0);
                    if want < 0.0 {
                        continue;
                    }
                    self.refused_checked += 1;
                    if self.connects_client.get(&ep).cloned().unwrap_or(0) > 0 {
                        return viol(prop, "incompatible_client_connected", format!("client {} reported Connect although its configuration must be refused with {}", ep, err_name(want as u8)), 0);
                    }
                    if self.connects_server.iter().any(|((_, a), n)| *a == cx.addrs[ep] && *n > 0) {
                        return viol(prop, "incompatible_client_connected", format!("the server reported Connect for client {} whose configuration must be refused", ep), 0);
                    }
                    // on a link that lets handshake frames through, the matching error arrives
                    if cx.plan.param("handshake_link_clean", 0.0) != 0.0 {
                        match self.errors_client.get(&ep) {
                            Some(k) if *k == want as u8 => (),
                            other => {
                                return viol(prop, "refusal_error_mismatch", format!("client {} must be refused with Error({}) but saw {:?}", ep, err_name(want as u8), other.map(|k| err_name(*k))), 0);
                            }
                        }
                    }
                }
            }
            _ => (),
        }
        None
    }

    fn reach(&self, out: &mut BTreeMap<String, u64>) {
        let mut a = |k: &str, v: u64| *out.entry(k.to_string()).or_insert(0) += v;
        a("connect_events_checked_against_wire_nonces", self.connects_checked);
        a("handshake_config_pairs_checked", self.pairs_checked);
        a("forged_or_replayed_handshake_frames_delivered", self.forged_seen);
        a("refusals_checked", self.refused_checked);
        a("server_side_timeouts_of_established_connections_checked_against_the_silence", self.server_timeouts_checked);
    }

    fn nontrivial(&self) -> bool {
        self.connects_checked + self.refused_checked >= 1
    }
}

// ------------------------------------------------------------------------------------------ C17

pub struct LimitsOracle {
    property: &'static str,
    active: BTreeSet<SocketAddr>,
    max_active_seen: u64,
    max_total_seen: u64,
    checks: u64,
    refusals: u64,
    server_full_events: BTreeSet<usize>,
    client_connects: BTreeSet<usize>,
    client_errors: BTreeMap<usize, u8>,
    ended: u64,
    overlapping_syns: u64,
    pending_now: u64,
    tracked_now: u64,
    closed_since: BTreeMap<(usize, SocketAddr), u64>,
    /// pending handshakes by (server, address, server nonce): when first seen
    pending_since: BTreeMap<(usize, SocketAddr, u32), u64>,
    /// client addresses whose endpoint object is gone: since when
    vanished_at: BTreeMap<SocketAddr, u64>,
    /// last datagram that reached a server's socket from an address
    last_heard: BTreeMap<(usize, SocketAddr), u64>,
    /// the server's table as of its previous probe: (server, address) -> (state, server nonce)
    table_before: BTreeMap<(usize, SocketAddr), (u8, Option<u32>)>,
    /// ServerFull refusals that left during the current call: (server, address refused)
    full_sent: Vec<(usize, SocketAddr)>,
    refusals_checked: u64,
}

impl LimitsOracle {
    pub fn new(property: &'static str) -> Self {
        Self { property, active: BTreeSet::new(), max_active_seen: 0, max_total_seen: 0, checks: 0, refusals: 0, server_full_events: BTreeSet::new(), client_connects: BTreeSet::new(), client_errors: BTreeMap::new(), ended: 0, overlapping_syns: 0, pending_now: 0, tracked_now: 0, closed_since: BTreeMap::new(), pending_since: BTreeMap::new(), vanished_at: BTreeMap::new(), last_heard: BTreeMap::new(), table_before: BTreeMap::new(), full_sent: Vec::new(), refusals_checked: 0 }
    }
}

impl Oracle for LimitsOracle {
    fn on(&mut self, rec: &Rec, cx: &Cx) -> Option<Violation> {
        let prop = self.property;
        match rec {
            Rec::Call { op: Op::Create { ep }, skipped: false, .. } => {
                if matches!(cx.plan.endpoints[*ep].kind, EndpointKind::Server { .. }) {
                    self.active.clear();
                }
            }
            Rec::Call { op: Op::ServerDrop { to, .. }, skipped: false, .. } => {
                if self.active.remove(&cx.addrs[*to]) {
                    self.ended += 1;
                }
            }
            Rec::Wire(w) => {
                if w.bytes.first() == Some(&FRAME_HS_ERR) {
                    if let Some(uv::Frame::HandshakeErrorFrame(f)) = uv::Frame::read(&w.bytes) {
                        if f.error == uv::HandshakeErrorType::ServerFull {
                            self.refusals += 1;
                            self.full_sent.push((w.src, w.dst_addr));
                        }
                    }
                }
                // a connection the server has begun to close (its Disconnect request is on the
                // wire) is closing, no longer established; it still counts as tracked
                if w.bytes.first() == Some(&FRAME_DISC) && matches!(cx.plan.endpoints[w.src].kind, EndpointKind::Server { .. }) {
                    if self.active.remove(&w.dst_addr) {
                        self.ended += 1;
                    }
                }
            }
            Rec::Event { call, ep, peer_addr, ev, .. } => match (&cx.plan.endpoints[*ep].kind, ev) {
                (EndpointKind::Server { max_active, .. }, AppEvent::Connect) => {
                    self.closed_since.remove(&(*ep, peer_addr.unwrap()));
                    self.active.insert(peer_addr.unwrap());
                    self.max_active_seen = self.max_active_seen.max(self.active.len() as u64);
                    if self.active.len() as u64 > *max_active {
                        return viol(prop, "too_many_active_connections", format!("server {} has {} established connections, max_active_connections = {}", ep, self.active.len(), max_active), *call);
                    }
                }
                (EndpointKind::Server { .. }, AppEvent::Disconnect) | (EndpointKind::Server { .. }, AppEvent::Error(ERR_TIMEOUT)) => {
                    if self.active.remove(&peer_addr.unwrap()) {
                        self.ended += 1;
                    }
                    if matches!(ev, AppEvent::Disconnect) {
                        self.closed_since.insert((*ep, peer_addr.unwrap()), cx.now_ns);
                    }
                }
                (EndpointKind::Client { .. }, AppEvent::Connect) => {
                    self.client_connects.insert(*ep);
                }
                (EndpointKind::Client { .. }, AppEvent::Error(k)) => {
                    self.client_errors.insert(*ep, *k);
                    if *k == ERR_SERVER_FULL {
                        self.server_full_events.insert(*ep);
                    }
                }
                _ => (),
            },
            Rec::Call { op: Op::Destroy { ep }, skipped: false, .. } if matches!(cx.plan.endpoints[*ep].kind, EndpointKind::Client { .. }) => {
                self.vanished_at.insert(cx.addrs[*ep], cx.now_ns);
            }
            Rec::Call { op: Op::Create { ep }, skipped: false, .. } if matches!(cx.plan.endpoints[*ep].kind, EndpointKind::Client { .. }) => {
                self.vanished_at.remove(&cx.addrs[*ep]);
            }
            Rec::Delivered { dst, src_addr, accepted: true, .. } if matches!(cx.plan.endpoints[*dst].kind, EndpointKind::Server { .. }) => {
                self.last_heard.insert((*dst, *src_addr), cx.now_ns);
            }
            Rec::Probe { call, ep, probe: Probe::Server(s), .. } => {
                // ServerFull is for handshakes that would exceed a limit. An address that holds
                // a slot of its own (its handshake is pending, or its connection established)
                // before and after the call - the same entry, by its server nonce - exceeds
                // nothing by repeating its SYN: it must not be told that the server is full
                let now: BTreeMap<(usize, SocketAddr), (u8, Option<u32>)> = s.clients.iter().map(|c| ((*ep, c.address), (c.state, c.local_nonce))).collect();
                for (srv, addr) in std::mem::take(&mut self.full_sent) {
                    if srv != *ep {
                        continue;
                    }
                    self.refusals_checked += 1;
                    if let (Some(b), Some(a)) = (self.table_before.get(&(srv, addr)), now.get(&(srv, addr))) {
                        if b == a && (b.0 == 0 || b.0 == 1) {
                            return viol(prop, "refused_although_slot_held", format!("server {} answered {} with ServerFull although that address holds a slot of its own ({}, before and after the call): a repeated SYN of a tracked address exceeds no limit", ep, addr, if b.0 == 0 { "handshake pending" } else { "connection established" }), *call);
                        }
                    }
                }
                self.table_before.retain(|k, _| k.0 != *ep);
                self.table_before.extend(now);
                if let EndpointKind::Server { cfg, .. } = &cx.plan.endpoints[*ep].kind {
                    // an unacknowledged handshake is given up after its ten retransmissions
                    // (22 s on the server's clock, which may run 2 % fast or slow)
                    let mut seen = BTreeSet::new();
                    for c in s.clients.iter().filter(|c| c.state == 0) {
                        if let Some(n) = c.local_nonce {
                            let key = (*ep, c.address, n);
                            seen.insert(key);
                            let t0 = *self.pending_since.entry(key).or_insert(cx.now_ns);
                            if cx.now_ns > t0 + 24_000_000_000 {
                                return viol(prop, "pending_entry_lingers", format!("server {} still tracks the unacknowledged handshake of {} (server nonce {:08x}) {:.1} s after it began (ten retransmissions, 22 s)", ep, c.address, n, (cx.now_ns - t0) as f64 / 1e9), *call);
                            }
                        }
                    }
                    self.pending_since.retain(|k, _| k.0 != *ep || seen.contains(k));
                    // a client that is gone is timed out once the silence timeout has passed since
                    // the last datagram from its address reached the server
                    for c in s.clients.iter().filter(|c| c.state == 1) {
                        if let Some(gone) = self.vanished_at.get(&c.address) {
                            let since = (*gone).max(self.last_heard.get(&(*ep, c.address)).cloned().unwrap_or(0));
                            let limit = cfg.active_timeout_ms * 1_030_000 + 2_000_000_000;
                            if cx.now_ns > since + limit {
                                return viol(prop, "vanished_client_still_active", format!("server {} still holds an established connection for {} although that client vanished and nothing from its address has reached the server for {:.1} s (silence timeout {} ms): the slot is not given back", ep, c.address, (cx.now_ns - since) as f64 / 1e9, cfg.active_timeout_ms), *call);
                            }
                        }
                    }
                }
                if let EndpointKind::Server { max_total, .. } = &cx.plan.endpoints[*ep].kind {
                    self.checks += 1;
                    self.max_total_seen = self.max_total_seen.max(s.clients_len as u64);
                    let pending = s.clients.iter().filter(|c| c.state == 0).count() as u64;
                    if pending >= 2 {
                        self.overlapping_syns += 1;
                    }
                    self.pending_now = pending;
                    self.tracked_now = s.clients_len as u64;
                    // a closed entry (the peer disconnected) is kept for 20 s to answer repeated
                    // requests, whatever the silence timeout is configured to
                    for c in s.clients.iter() {
                        if c.state == 3 {
                            if let Some(t0) = self.closed_since.get(&(*ep, c.address)) {
                                if cx.now_ns > *t0 + 21_500_000_000 {
                                    return viol(prop, "closed_entry_lingers", format!("server {} still tracks the closed connection of {} {:.1} s after that client disconnected (20 s linger)", ep, c.address, (cx.now_ns - *t0) as f64 / 1e9), *call);
                                }
                            }
                        }
                    }
                    if s.clients_len as u64 > *max_total {
                        return viol(prop, "too_many_tracked_connections", format!("server {} tracks {} connections (connecting, established, closing), max_total_connections = {}", ep, s.clients_len, max_total), *call);
                    }
                }
            }
            Rec::End { .. } => {
                // on a clean link a client that was not admitted was told so (ServerFull), never
                // left to time out silently
                if cx.plan.param("limits_clean_link", 0.0) != 0.0 {
                    for (ep, e) in cx.plan.endpoints.iter().enumerate() {
                        if !matches!(e.kind, EndpointKind::Client { .. }) || cx.plan.param(&format!("created_ep{}", ep), 0.0) == 0.0 {
                            continue;
                        }
                        if !self.client_connects.contains(&ep) && !self.server_full_events.contains(&ep) {
                            return viol(prop, "refused_without_server_full", format!("client {} was neither connected nor refused with ServerFull on a loss-free network (its events: {:?})", ep, self.client_errors.get(&ep).map(|k| err_name(*k))), 0);
                        }
                    }
                    // capacity returns: the late client (created after enough connections ended)
                    let late = cx.plan.param("late_client_ep", -1.0);
                    // ... and by then every earlier entry (ended, lingering, abandoned) is gone
                    if late >= 0.0 && self.tracked_now > 1 {
                        return viol(prop, "ended_connections_still_tracked", format!("the server still tracks {} connections although every connection but the late client's ended more than (22 s + silence timeout) ago", self.tracked_now), 0);
                    }
                    if late >= 0.0 && !self.client_connects.contains(&(late as usize)) {
                        return viol(prop, "capacity_not_returned", format!("client {} arrived after connections had ended and their closed entries expired, but was not admitted (its events: {:?})", late, self.client_errors.get(&(late as usize)).map(|k| err_name(*k))), 0);
                    }
                }
            }
            _ => (),
        }
        None
    }

    fn reach(&self, out: &mut BTreeMap<String, u64>) {
        let mut a = |k: &str, v: u64| *out.entry(k.to_string()).or_insert(0) += v;
        a("server_limit_checks", self.checks);
        a("server_full_refusals_on_wire", self.refusals);
        a("server_full_refusals_checked_against_the_table", self.refusals_checked);
        a("connections_ended", self.ended);
        a("probes_with_two_or_more_pending_handshakes", self.overlapping_syns);
        let m = out.entry("max_active_seen".to_string()).or_insert(0);
        *m = (*m).max(self.max_active_seen);
        let m = out.entry("max_tracked_seen".to_string()).or_insert(0);
        *m = (*m).max(self.max_total_seen);
    }

    fn nontrivial(&self) -> bool {
        self.checks >= 10 && !self.client_connects.is_empty()
    }
}

// ------------------------------------------------------------------------------------------ C18

#[derive(Default, Clone, Debug)]
struct Bytes {
    to_server: u64,
    n_to_server: u64,
    from_server: u64,
    n_from_server: u64,
    undersized_only: bool,
    any: bool,
}

pub struct AmplificationOracle {
    property: &'static str,
    per_addr: BTreeMap<(usize, SocketAddr), Bytes>,
    checks: u64,
    replies: u64,
    max_ratio_permille: u64,
    undersized_sent: u64,
    kinds: BTreeSet<u8>,
    hdr_inclusive_exceeded: u64,
}

impl AmplificationOracle {
    pub fn new(property: &'static str) -> Self {
        Self { property, per_addr: BTreeMap::new(), checks: 0, replies: 0, max_ratio_permille: 0, undersized_sent: 0, kinds: BTreeSet::new(), hdr_inclusive_exceeded: 0 }
    }
}

impl Oracle for AmplificationOracle {
    fn on(&mut self, rec: &Rec, cx: &Cx) -> Option<Violation> {
        let prop = self.property;
        match rec {
            Rec::Delivered { dst, src_addr, src, bytes, accepted: true, .. } => {
                if matches!(cx.plan.endpoints[*dst].kind, EndpointKind::Server { .. }) && src.map_or(true, |s| matches!(cx.plan.endpoints[s].kind, EndpointKind::Raw)) {
                    let e = self.per_addr.entry((*dst, *src_addr)).or_insert(Bytes { undersized_only: true, ..Default::default() });
                    e.to_server += bytes.len() as u64;
                    e.n_to_server += 1;
                    e.any = true;
                    let undersized_syn = bytes.first() == Some(&FRAME_SYN) && bytes.len() < uflow::MAX_FRAME_SIZE;
                    if undersized_syn {
                        self.undersized_sent += 1;
                    } else if uv::Frame::read(bytes).is_some() && bytes.first() == Some(&FRAME_SYN) {
                        e.undersized_only = false;
                    }
                    if let Some(t) = bytes.first() {
                        self.kinds.insert(*t);
                    }
                }
            }
            Rec::Wire(w) => {
                if !matches!(cx.plan.endpoints[w.src].kind, EndpointKind::Server { .. }) {
                    return None;
                }
                let unverified = w.dst.map_or(true, |d| matches!(cx.plan.endpoints[d].kind, EndpointKind::Raw));
                if !unverified {
                    return None;
                }
                self.replies += 1;
                let e = self.per_addr.entry((w.src, w.dst_addr)).or_insert(Bytes { undersized_only: true, ..Default::default() });
                e.from_server += w.bytes.len() as u64;
                e.n_from_server += 1;
                self.checks += 1;
                if e.any && e.undersized_only {
                    return viol(prop, "reply_to_undersized_request", format!("server {} sent {} bytes ({}) to {} which only ever sent undersized connection requests", w.src, w.bytes.len(), crate::tracer::frame_summary(&w.bytes), w.dst_addr), w.call);
                }
                if e.to_server > 0 {
                    self.max_ratio_permille = self.max_ratio_permille.max(e.from_server * 1000 / e.to_server);
                }
                // payload bytes, and bytes including the 28-byte UDP/IP header per datagram
                let plain = e.from_server < e.to_server;
                let with_hdr = e.from_server + 28 * e.n_from_server < e.to_server + 28 * e.n_to_server;
                // the property counts bytes; the header-inclusive balance is reported as a
                // measurement only
                if !with_hdr {
                    self.hdr_inclusive_exceeded += 1;
                }
                if !plain {
                    let d = format!(
                        "server {} has sent {} bytes in {} datagrams to the unverified address {} and received {} bytes in {} datagrams from it (with UDP/IP headers: {} vs {})",
                        w.src, e.from_server, e.n_from_server, w.dst_addr, e.to_server, e.n_to_server, e.from_server + 28 * e.n_from_server, e.to_server + 28 * e.n_to_server);
                    return viol(prop, "amplification", d, w.call);
                }
            }
            _ => (),
        }
        None
    }

    fn reach(&self, out: &mut BTreeMap<String, u64>) {
        let mut a = |k: &str, v: u64| *out.entry(k.to_string()).or_insert(0) += v;
        a("server_datagrams_to_unverified_addresses_checked", self.checks);
        a("undersized_syns_delivered", self.undersized_sent);
        a("replies_exceeding_the_header_inclusive_balance_only", self.hdr_inclusive_exceeded);
        a("frame_types_sent_by_unverified_addresses", self.kinds.len() as u64);
        let m = out.entry("max_out_in_ratio_permille".to_string()).or_insert(0);
        *m = (*m).max(self.max_ratio_permille);
    }

    fn nontrivial(&self) -> bool {
        self.per_addr.values().any(|b| b.n_to_server >= 1)
    }
}
