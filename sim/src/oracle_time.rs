//! Timer oracles for World B: silence timeouts, keepalive and retry budgets (C10), and the
//! disconnect protocol (C09).

use crate::plan::*;
use crate::world::*;
use std::collections::{BTreeMap, BTreeSet};
use std::net::SocketAddr;
use uflow::verif as uv;
use uflow::verif::Serialize;

fn viol(property: &str, clause: &str, detail: String, at_call: u64) -> Option<Violation> {
    Some(Violation { property: property.to_string(), clause: clause.to_string(), detail, at_call })
}

fn cfg_of(plan: &Plan, ep: usize) -> Option<&EndpointCfg> {
    match &plan.endpoints[ep].kind {
        EndpointKind::Client { cfg, .. } | EndpointKind::Server { cfg, .. } => Some(cfg),
        _ => None,
    }
}

// ------------------------------------------------------------------------------------------ C10

#[derive(Clone, Debug)]
struct ConnTimer {
    /// local ms of the step at which the peer was last heard (establishment counts)
    heard_ms: u64,
    established: bool,
    /// this endpoint has started closing (its Disconnect frame is on the wire) or was told to
    closing: bool,
}

pub struct TimeoutOracle {
    property: &'static str,
    /// (endpoint, peer address) -> timer mirror
    conns: BTreeMap<(usize, SocketAddr), ConnTimer>,
    /// valid frames read in the current call: (src addr, frame type)
    consumed_now: Vec<(SocketAddr, u8)>,
    /// (endpoint, call, endpoint ms) of the step() in progress
    cur_step: Option<(usize, u64, u64)>,
    /// local clock (ns) at which each endpoint object was created: uflow counts milliseconds
    /// from there
    base_ns: BTreeMap<usize, u64>,
    /// per client endpoint: local ms of every SYN it put on the wire
    syn_times: BTreeMap<usize, Vec<u64>>,
    /// per (endpoint, peer): local ms of every Disconnect frame
    disc_times: BTreeMap<(usize, SocketAddr), Vec<u64>>,
    /// per (server, client addr): local ms of SYN-ACKs
    synack_times: BTreeMap<(usize, SocketAddr), Vec<u64>>,
    handshake_timeouts: BTreeMap<usize, u64>,
    closing_timeouts: BTreeMap<(usize, SocketAddr), u64>,
    connected_clients: BTreeSet<usize>,
    // reach
    timeouts_sound: u64,
    prompt_checks: u64,
    steps_idle_ok: u64,
    handshake_budgets: u64,
    disconnect_budgets: u64,
    synack_budgets: u64,
    late_handshakes: u64,
    clock_jumps: u64,
    /// per endpoint: (ms of its latest step, largest gap between consecutive steps)
    step_gap_ms: BTreeMap<usize, (u64, u64)>,
    /// valid data/sync/ack frames lying in an endpoint's socket buffer, per (endpoint, source)
    in_socket: BTreeMap<(usize, SocketAddr), u64>,
    /// the same count as it stood when the step in progress began
    in_socket_at_step: BTreeMap<(usize, SocketAddr), u64>,
}

impl TimeoutOracle {
    pub fn new(property: &'static str) -> Self {
        Self {
            property,
            conns: BTreeMap::new(),
            consumed_now: Vec::new(),
            cur_step: None,
            base_ns: BTreeMap::new(),
            syn_times: BTreeMap::new(),
            disc_times: BTreeMap::new(),
            synack_times: BTreeMap::new(),
            handshake_timeouts: BTreeMap::new(),
            closing_timeouts: BTreeMap::new(),
            connected_clients: BTreeSet::new(),
            timeouts_sound: 0,
            prompt_checks: 0,
            steps_idle_ok: 0,
            handshake_budgets: 0,
            disconnect_budgets: 0,
            synack_budgets: 0,
            late_handshakes: 0,
            clock_jumps: 0,
            step_gap_ms: BTreeMap::new(),
            in_socket: BTreeMap::new(),
            in_socket_at_step: BTreeMap::new(),
        }
    }
}

impl TimeoutOracle {
    /// Milliseconds on the endpoint's own timeline (as uflow computes them: whole milliseconds
    /// since the object was created).
    fn ms(&self, ep: usize, local_ns: u64) -> u64 {
        local_ns.saturating_sub(self.base_ns.get(&ep).cloned().unwrap_or(0)) / 1_000_000
    }
}

/// Consecutive transmissions of one retry series more than 2 s + one step period apart.
fn spacing_late(times: &[u64], gap_ms: u64) -> Option<(u64, u64)> {
    for w in times.windows(2) {
        if w[1] > w[0] + 2000 + gap_ms + 50 {
            return Some((w[0], w[1]));
        }
    }
    None
}

fn spacing_ok(times: &[u64]) -> Option<(u64, u64)> {
    for w in times.windows(2) {
        if w[1] < w[0] + 2000 {
            return Some((w[0], w[1]));
        }
    }
    None
}

impl Oracle for TimeoutOracle {
    fn on(&mut self, rec: &Rec, cx: &Cx) -> Option<Violation> {
        let prop = self.property;
        match rec {
            Rec::Call { op: Op::Create { ep }, local_ns, skipped: false, .. } => {
                let ep = *ep;
                self.base_ns.insert(ep, *local_ns);
                self.in_socket.retain(|(e, _), _| *e != ep);
                self.in_socket_at_step.retain(|(e, _), _| *e != ep);
                self.conns.retain(|(e, _), _| *e != ep);
                self.syn_times.remove(&ep);
                self.handshake_timeouts.remove(&ep);
                self.connected_clients.remove(&ep);
                self.disc_times.retain(|(e, _), _| *e != ep);
                self.consumed_now.clear();
            }
            Rec::Call { op: Op::ClockJump { .. }, .. } => self.clock_jumps += 1,
            Rec::Call { op: Op::ServerDrop { ep, to }, skipped: false, .. } => {
                self.conns.remove(&(*ep, cx.addrs[*to]));
                // whatever the server answers that address from now on belongs to a new handshake
                self.synack_times.remove(&(*ep, cx.addrs[*to]));
            }
            Rec::Call { call, ep: Some(ep), local_ns, op: Op::Step { .. }, skipped: false, .. } => {
                self.consumed_now.clear();
                let now_ms = self.ms(*ep, *local_ns);
                self.cur_step = Some((*ep, *call, now_ms));
                let snapshot: Vec<((usize, SocketAddr), u64)> = self.in_socket.iter().filter(|((e, _), n)| e == ep && **n > 0).map(|(k, n)| (*k, *n)).collect();
                self.in_socket_at_step.retain(|(e, _), _| e != ep);
                for (k, n) in snapshot {
                    self.in_socket_at_step.insert(k, n);
                }
                let g = self.step_gap_ms.entry(*ep).or_insert((now_ms, 0));
                g.1 = g.1.max(now_ms.saturating_sub(g.0));
                g.0 = now_ms;
            }
            Rec::Delivered { dst, src_addr, bytes, accepted: true, .. } => {
                if matches!(bytes.first(), Some(&FRAME_DATA) | Some(&FRAME_SYNC) | Some(&FRAME_ACK)) && uv::Frame::read(bytes).is_some() {
                    *self.in_socket.entry((*dst, *src_addr)).or_insert(0) += 1;
                }
            }
            Rec::Consumed { ep, bytes, src_addr, .. } => {
                if let Some(t) = bytes.first() {
                    if uv::Frame::read(bytes).is_some() {
                        self.consumed_now.push((*src_addr, *t));
                        if *t == FRAME_DATA || *t == FRAME_SYNC || *t == FRAME_ACK {
                            if let Some(n) = self.in_socket.get_mut(&(*ep, *src_addr)) {
                                *n = n.saturating_sub(1);
                            }
                        }
                    }
                }
            }
            Rec::Wire(w) => {
              let w_ms = self.ms(w.src, w.local_ns);
              match w.bytes.first().copied() {
                Some(FRAME_SYN) if matches!(cx.plan.endpoints[w.src].kind, EndpointKind::Client { .. }) => {
                    self.syn_times.entry(w.src).or_default().push(w_ms);
                }
                Some(FRAME_SYN_ACK) if matches!(cx.plan.endpoints[w.src].kind, EndpointKind::Server { .. }) => {
                    self.synack_times.entry((w.src, w.dst_addr)).or_default().push(w_ms);
                }
                Some(FRAME_DISC) if !matches!(cx.plan.endpoints[w.src].kind, EndpointKind::Raw) => {
                    self.disc_times.entry((w.src, w.dst_addr)).or_default().push(w_ms);
                    if let Some(c) = self.conns.get_mut(&(w.src, w.dst_addr)) {
                        c.closing = true;
                    }
                }
                _ => (),
              }
            }
            Rec::Event { call, local_ns, ep, peer_addr, ev, .. } => {
                let local_ms = &self.ms(*ep, *local_ns);
                let peer = match peer_addr {
                    Some(a) => *a,
                    None => match &cx.plan.endpoints[*ep].kind {
                        EndpointKind::Client { server, .. } => cx.addrs[*server],
                        _ => return None,
                    },
                };
                let key = (*ep, peer);
                let timeout = cfg_of(cx.plan, *ep).map_or(0, |c| c.active_timeout_ms);
                match ev {
                    AppEvent::Connect => {
                        // establishment itself is the first "heard" instant
                        self.conns.insert(key, ConnTimer { heard_ms: *local_ms, established: true, closing: false });
                        // a retry series is one handshake: a SYN-ACK that follows the server's
                        // Connect for the address starts the series of another handshake
                        if let Some(a) = peer_addr {
                            self.synack_times.remove(&(*ep, *a));
                        }
                        if peer_addr.is_none() {
                            self.connected_clients.insert(*ep);
                            if self.syn_times.get(ep).map_or(0, |v| v.len()) >= 2 {
                                self.late_handshakes += 1;
                            }
                        }
                    }
                    AppEvent::Error(ERR_TIMEOUT) => {
                        match self.conns.get(&key).cloned() {
                            Some(c) if c.established && !c.closing => {
                                // soundness: only after the configured silence
                                self.timeouts_sound += 1;
                                // frames consumed in this very step count as heard now
                                let heard_now = self.consumed_now.iter().any(|(a, t)| *a == peer && (*t == FRAME_DATA || *t == FRAME_SYNC || *t == FRAME_ACK));
                                let silence = local_ms.saturating_sub(c.heard_ms);
                                // a step drains the socket: a frame of the peer that lay in the
                                // socket buffer when this step began has been received, whether
                                // or not the endpoint got round to reading it
                                let waiting = self.in_socket_at_step.get(&key).cloned().unwrap_or(0);
                                if !heard_now && silence >= timeout && waiting > 0 {
                                    let d = format!(
                                        "endpoint {} reported Error(Timeout) for its connection with {} at local time {} ms although {} valid frame(s) from that peer lay in its socket buffer when the step began and were not read",
                                        ep, peer, local_ms, waiting);
                                    return viol(prop, "timeout_with_frames_unread", d, *call);
                                }
                                if heard_now || silence < timeout {
                                    let d = format!(
                                        "endpoint {} reported Error(Timeout) for its connection with {} at local time {} ms: the peer was last heard at {} ms ({} ms of silence{}), active_timeout_ms = {}",
                                        ep, peer, local_ms, c.heard_ms, silence, if heard_now { ", and a frame from it was read in this very step" } else { "" }, timeout);
                                    return viol(prop, "timeout_before_configured_silence", d, *call);
                                }
                                self.conns.remove(&key);
                            }
                            Some(c) if c.closing => {
                                // disconnect retry budget exhausted
                                self.closing_timeouts.insert(key, *local_ms);
                                self.conns.remove(&key);
                            }
                            _ => {
                                // handshake timeout (client) or pending entry expiry (server events)
                                if peer_addr.is_none() {
                                    self.handshake_timeouts.insert(*ep, *local_ms);
                                }
                            }
                        }
                    }
                    AppEvent::Disconnect | AppEvent::Error(_) => {
                        self.conns.remove(&key);
                    }
                    AppEvent::Receive(_) => (),
                }
            }
            Rec::CallEnd { call, ep: Some(ep), .. } => {
                // after a step: update "heard", then promptness
                let Some((sep, scall, local_ms)) = self.cur_step else { return None };
                if sep != *ep || scall != *call {
                    return None;
                }
                self.cur_step = None;
                let consumed = std::mem::take(&mut self.consumed_now);
                let keys: Vec<(usize, SocketAddr)> = self.conns.keys().filter(|(e, _)| e == ep).cloned().collect();
                for key in keys {
                    let timeout = cfg_of(cx.plan, *ep).map_or(0, |c| c.active_timeout_ms);
                    let c = self.conns.get_mut(&key).unwrap();
                    if !c.established || c.closing {
                        continue;
                    }
                    let heard = consumed.iter().any(|(a, t)| *a == key.1 && (*t == FRAME_DATA || *t == FRAME_SYNC || *t == FRAME_ACK));
                    if heard {
                        c.heard_ms = local_ms;
                    }
                    // promptness: once that much silence has elapsed the step must have reported it
                    // (the Error event above would have removed the connection)
                    self.prompt_checks += 1;
                    let any = consumed.iter().any(|(a, _)| *a == key.1);
                    if !any && local_ms.saturating_sub(c.heard_ms) >= timeout {
                        let d = format!("endpoint {}: connection with {} has been silent for {} ms at the step of local time {} ms (active_timeout_ms = {}) but no timeout was reported by that step", ep, key.1, local_ms - c.heard_ms, local_ms, timeout);
                        return viol(prop, "timeout_not_reported", d, *call);
                    }
                    self.steps_idle_ok += 1;
                }
            }
            Rec::End { .. } => {
                // retry budgets
                let budget_check = cx.plan.param("check_retry_budgets", 0.0) != 0.0;
                for (ep, times) in self.syn_times.iter() {
                    if let Some((a, b)) = spacing_ok(times) {
                        return viol(prop, "handshake_resend_too_early", format!("client {} transmitted connection requests at {} ms and {} ms of its clock (less than 2 s apart)", ep, a, b), 0);
                    }
                    if times.len() > 11 {
                        return viol(prop, "handshake_resend_count", format!("client {} transmitted {} connection requests (1 + 10 resends allowed)", ep, times.len()), 0);
                    }
                    if let Some(t_err) = self.handshake_timeouts.get(ep) {
                        self.handshake_budgets += 1;
                        if *t_err < times[0] + 22_000 {
                            return viol(prop, "handshake_timeout_early", format!("client {} gave up its handshake at {} ms, {} ms after its first request (budget: 22 s)", ep, t_err, t_err - times[0]), 0);
                        }
                        if times.len() != 11 {
                            return viol(prop, "handshake_resend_count", format!("client {} reported a handshake timeout after {} transmissions (exactly 1 + 10 expected)", ep, times.len()), 0);
                        }
                    } else if budget_check && !self.connected_clients.contains(ep) && cx.plan.param(&format!("unanswered_ep{}", ep), 0.0) != 0.0 {
                        return viol(prop, "handshake_timeout_missing", format!("client {} never got an answer and never reported a timeout ({} requests sent)", ep, times.len()), 0);
                    }
                }
                for (key, times) in self.disc_times.iter() {
                    if let Some((a, b)) = spacing_ok(times) {
                        return viol(prop, "disconnect_resend_too_early", format!("endpoint {} transmitted disconnect requests to {} at {} ms and {} ms (less than 2 s apart)", key.0, key.1, a, b), 0);
                    }
                    if times.len() > 11 {
                        return viol(prop, "disconnect_resend_count", format!("endpoint {} transmitted {} disconnect requests to {}", key.0, times.len(), key.1), 0);
                    }
                    if let Some(t_err) = self.closing_timeouts.get(key) {
                        self.disconnect_budgets += 1;
                        if *t_err < times[0] + 22_000 {
                            return viol(prop, "disconnect_timeout_early", format!("endpoint {} gave up disconnecting from {} {} ms after its first request (budget: 22 s)", key.0, key.1, t_err - times[0]), 0);
                        }
                        if times.len() != 11 {
                            return viol(prop, "disconnect_resend_count", format!("endpoint {} reported a disconnect timeout after {} transmissions (exactly 1 + 10 expected)", key.0, times.len()), 0);
                        }
                    }
                }
                // ... and the resends come every 2 s (plus at most one step period), whatever else
                // the endpoint's timer queue holds (scenarios with one connection per address)
                if budget_check {
                    let gap = |ep: usize| self.step_gap_ms.get(&ep).map_or(0, |g| g.1);
                    for (ep, times) in self.syn_times.iter() {
                        if let Some((a, b)) = spacing_late(times, gap(*ep)) {
                            return viol(prop, "resend_late", format!("client {} transmitted consecutive connection requests at {} ms and {} ms (2 s apart expected; its steps are at most {} ms apart)", ep, a, b, gap(*ep)), 0);
                        }
                    }
                    for (key, times) in self.disc_times.iter() {
                        if let Some((a, b)) = spacing_late(times, gap(key.0)) {
                            return viol(prop, "resend_late", format!("endpoint {} transmitted consecutive disconnect requests to {} at {} ms and {} ms (2 s apart expected; its steps are at most {} ms apart)", key.0, key.1, a, b, gap(key.0)), 0);
                        }
                    }
                    for (key, times) in self.synack_times.iter() {
                        if times.len() <= 11 {
                            if let Some((a, b)) = spacing_late(times, gap(key.0)) {
                                return viol(prop, "resend_late", format!("server {} transmitted consecutive SYN-ACKs to {} at {} ms and {} ms (2 s apart expected; its steps are at most {} ms apart)", key.0, key.1, a, b, gap(key.0)), 0);
                            }
                        }
                    }
                }
                for (key, times) in self.synack_times.iter() {
                    self.synack_budgets += 1;
                    if let Some((a, b)) = spacing_ok(times) {
                        // a fresh handshake from the same address after the old entry expired
                        // legitimately restarts the series: only flag resends within one series
                        if b - a < 2000 && times.len() <= 11 {
                            return viol(prop, "synack_resend_too_early", format!("server {} transmitted SYN-ACKs to {} at {} ms and {} ms (less than 2 s apart)", key.0, key.1, a, b), 0);
                        }
                    }
                }
                // keepalive: an idle connection on a loss-free network never times out
                if cx.plan.param("expect_no_timeout", 0.0) != 0.0 {
                    for (ep, e) in cx.plan.endpoints.iter().enumerate() {
                        if matches!(e.kind, EndpointKind::Client { .. }) && !self.conns.keys().any(|(x, _)| *x == ep) {
                            return viol(prop, "idle_connection_lost", format!("client {}'s connection did not survive the idle period although keepalive frames fit inside the timeout", ep), 0);
                        }
                    }
                }
            }
            _ => (),
        }
        None
    }

    fn reach(&self, out: &mut BTreeMap<String, u64>) {
        let mut a = |k: &str, v: u64| *out.entry(k.to_string()).or_insert(0) += v;
        a("timeouts_checked_for_soundness", self.timeouts_sound);
        a("steps_checked_for_promptness", self.prompt_checks);
        a("handshake_retry_budgets_checked", self.handshake_budgets);
        a("disconnect_retry_budgets_checked", self.disconnect_budgets);
        a("synack_series_checked", self.synack_budgets);
        a("connections_established_after_lost_syn_or_synack", self.late_handshakes);
        a("clock_jumps_seen", self.clock_jumps);
    }

    fn nontrivial(&self) -> bool {
        self.prompt_checks >= 10 || self.handshake_budgets + self.disconnect_budgets >= 1
    }
}

// ------------------------------------------------------------------------------------------ C09

#[derive(Clone, Debug, Default)]
struct DiscConn {
    /// accepted Reliable submissions (payload bytes) per sender endpoint, before its disconnect() call
    reliable_before: BTreeMap<usize, Vec<std::rc::Rc<Vec<u8>>>>,
    /// who called disconnect()/disconnect_now() and when: ep -> (call, now?)
    calls: BTreeMap<usize, (u64, bool)>,
    /// global time of the first Disconnect frame per sender
    first_disc_ns: BTreeMap<usize, u64>,
    /// terminal event per endpoint: (global ns, what)
    terminal: BTreeMap<usize, (u64, String)>,
    /// payloads delivered per receiving endpoint
    delivered: BTreeMap<usize, BTreeMap<Vec<u8>, u64>>,
    /// last time each endpoint consumed a data/ack/sync frame from the other
    last_heard_ns: BTreeMap<usize, u64>,
    connected: BTreeSet<usize>,
    dropped: bool,
    recreated: bool,
    /// time of each endpoint's first disconnect_now() call
    now_call_ns: BTreeMap<usize, u64>,
}

pub struct DisconnectOracle {
    property: &'static str,
    /// keyed by client endpoint (one connection per client at a time)
    conns: BTreeMap<usize, DiscConn>,
    flush_checked: u64,
    deadlines_checked: u64,
    blackout_after_call: u64,
    max_step_gap_ns: BTreeMap<usize, u64>,
    last_step_ns: BTreeMap<usize, u64>,
}

impl DisconnectOracle {
    pub fn new(property: &'static str) -> Self {
        Self { property, conns: BTreeMap::new(), flush_checked: 0, deadlines_checked: 0, blackout_after_call: 0, max_step_gap_ns: BTreeMap::new(), last_step_ns: BTreeMap::new() }
    }

    fn conn_of(&mut self, ep: usize, peer: Option<usize>, plan: &Plan) -> Option<(usize, usize)> {
        // returns (client ep, other ep)
        match &plan.endpoints[ep].kind {
            EndpointKind::Client { server, .. } => Some((ep, *server)),
            EndpointKind::Server { .. } => peer.map(|p| (p, ep)),
            _ => None,
        }
    }
}

impl Oracle for DisconnectOracle {
    fn on(&mut self, rec: &Rec, cx: &Cx) -> Option<Violation> {
        let prop = self.property;
        match rec {
            Rec::Call { op: Op::Create { ep }, skipped: false, .. } => {
                if let Some(c) = self.conns.get_mut(ep) {
                    c.recreated = true;
                }
                self.conns.remove(ep);
            }
            Rec::Call { t_ns, ep: Some(ep), op: Op::Step { .. }, skipped: false, .. } => {
                if let Some(prev) = self.last_step_ns.insert(*ep, *t_ns) {
                    let m = self.max_step_gap_ns.entry(*ep).or_insert(0);
                    *m = (*m).max(*t_ns - prev);
                }
            }
            Rec::Call { call, op: Op::Disconnect { ep, to } | Op::DisconnectNow { ep, to }, skipped: false, .. } => {
                let now = matches!(rec, Rec::Call { op: Op::DisconnectNow { .. }, .. });
                if let Some((client, _)) = self.conn_of(*ep, *to, cx.plan) {
                    let c = self.conns.entry(client).or_default();
                    c.calls.entry(*ep).or_insert((*call, now));
                    // (only calls made on an established connection: the server also accepts
                    // them for a lingering closed entry of the same address)
                    if now && c.connected.contains(ep) {
                        c.now_call_ns.entry(*ep).or_insert(cx.now_ns);
                    }
                    // a later disconnect() replaces the request (the library lets the last call
                    // decide): the immediacy claim only stands while disconnect_now() is the
                    // latest call
                    if !now && !c.first_disc_ns.contains_key(ep) {
                        c.now_call_ns.remove(ep);
                    }
                }
            }
            Rec::Call { op: Op::ServerDrop { to, .. }, skipped: false, .. } => {
                if let Some(c) = self.conns.get_mut(to) {
                    c.dropped = true;
                }
            }
            Rec::Call { op: Op::Link { rule, .. }, .. } => {
                if rule.blackout && self.conns.values().any(|c| !c.calls.is_empty()) {
                    self.blackout_after_call += 1;
                }
            }
            Rec::Submit { ep, to, mode, payload, accepted: true, .. } => {
                if let Some((client, _)) = self.conn_of(*ep, *to, cx.plan) {
                    let c = self.conns.entry(client).or_default();
                    if *mode == MODE_RELIABLE && !c.calls.contains_key(ep) {
                        c.reliable_before.entry(*ep).or_default().push(payload.clone());
                    }
                }
            }
            Rec::Wire(w) => {
                if w.bytes.first() == Some(&FRAME_DISC) {
                    if let Some((client, _)) = self.conn_of(w.src, w.dst, cx.plan) {
                        let c = self.conns.entry(client).or_default();
                        c.first_disc_ns.entry(w.src).or_insert(w.t_ns);
                    }
                }
            }
            Rec::Consumed { ep, src, bytes, .. } => {
                if let (Some(t), Some(src)) = (bytes.first(), src) {
                    if *t == FRAME_DATA || *t == FRAME_SYNC || *t == FRAME_ACK {
                        let client = if matches!(cx.plan.endpoints[*ep].kind, EndpointKind::Client { .. }) { *ep } else { *src };
                        if let Some(c) = self.conns.get_mut(&client) {
                            c.last_heard_ns.insert(*ep, cx.now_ns);
                        }
                    }
                }
            }
            Rec::Event { call, t_ns, ep, peer, ev, .. } => {
                let Some((client, _other)) = self.conn_of(*ep, *peer, cx.plan) else { return None };
                let c = self.conns.entry(client).or_default();
                match ev {
                    AppEvent::Connect => {
                        c.connected.insert(*ep);
                        c.last_heard_ns.insert(*ep, *t_ns);
                    }
                    AppEvent::Receive(p) => {
                        *c.delivered.entry(*ep).or_default().entry((**p).clone()).or_insert(0) += 1;
                    }
                    AppEvent::Disconnect => {
                        c.terminal.entry(*ep).or_insert((*t_ns, "Disconnect".into()));
                        // (1) flush guarantee: the other side called disconnect() (not _now), this
                        // side did not disconnect itself
                        let callers: Vec<(usize, (u64, bool))> = c.calls.iter().map(|(k, v)| (*k, *v)).collect();
                        if callers.len() == 1 && callers[0].0 != *ep && !callers[0].1 .1 && !c.dropped && !c.now_call_ns.contains_key(&callers[0].0) {
                            let caller = callers[0].0;
                            self.flush_checked += 1;
                            let got = c.delivered.get(ep).cloned().unwrap_or_default();
                            if let Some(list) = c.reliable_before.get(&caller) {
                                // identical payloads (empty packets) are matched by count
                                let mut need: BTreeMap<&[u8], u64> = BTreeMap::new();
                                for (i, p) in list.iter().enumerate() {
                                    let n = need.entry(&p[..]).or_insert(0);
                                    *n += 1;
                                    if got.get(&**p).cloned().unwrap_or(0) < *n {
                                        let d = format!(
                                            "endpoint {} saw Disconnect although Reliable packet #{} ({} bytes, {:?}) that endpoint {} submitted before calling disconnect() had not been delivered to it ({} of {} delivered)",
                                            ep, i, p.len(), parse_payload(p).map(|h| h.3), caller, list.iter().filter(|q| got.contains_key(&***q)).count(), list.len());
                                        return viol(prop, "disconnect_before_reliable_data", d, *call);
                                    }
                                }
                            }
                        }
                    }
                    AppEvent::Error(k) => {
                        c.terminal.entry(*ep).or_insert((*t_ns, format!("Error({})", k)));
                    }
                }
            }
            Rec::End { t_ns } => {
                // (2) both endpoints reach a terminal event within the retry budget
                for (client, c) in self.conns.iter() {
                    if c.dropped || c.recreated {
                        continue;
                    }
                    // disconnect_now(): the request goes out at once (at the caller's next step),
                    // whatever was asked for before and however much is still queued
                    for (ep, t_call) in c.now_call_ns.iter() {
                        if !c.connected.contains(ep) || c.terminal.get(ep).map_or(false, |(t, _)| *t <= *t_call) || c.first_disc_ns.get(ep).map_or(false, |t| *t <= *t_call) {
                            continue;
                        }
                        let gap = self.max_step_gap_ns.get(ep).cloned().unwrap_or(0);
                        let limit = *t_call + 2 * gap + 50_000_000;
                        let sent = c.first_disc_ns.get(ep).cloned();
                        if *t_ns > limit && sent.map_or(true, |t| t > limit) && c.terminal.get(ep).map_or(true, |(t, _)| *t > limit) {
                            let d = format!("endpoint {} called disconnect_now() at {:.3} s but its disconnect request was first transmitted at {:?} s (steps at most {:.3} s apart)", ep, *t_call as f64 / 1e9, sent.map(|t| t as f64 / 1e9), gap as f64 / 1e9);
                            return viol(prop, "disconnect_now_not_immediate", d, 0);
                        }
                    }
                    for (caller, t0) in c.first_disc_ns.iter() {
                        let server = match &cx.plan.endpoints[*client].kind {
                            EndpointKind::Client { server, .. } => *server,
                            _ => continue,
                        };
                        let peer = if *caller == *client { server } else { *client };
                        if !c.connected.contains(caller) {
                            continue;
                        }
                        self.deadlines_checked += 1;
                        let gap_c = self.max_step_gap_ns.get(caller).cloned().unwrap_or(0);
                        let caller_deadline = *t0 + 22_000_000_000 + 11 * gap_c + 1_000_000_000;
                        let caller_done = c.terminal.get(caller).map(|x| x.0);
                        // "Error(Timeout) if the peer has become unreachable": in scenarios where
                        // the peer stays reachable (only a bounded number of acknowledgements is
                        // lost) the retries must end in Disconnect
                        if cx.plan.param("peer_stays_reachable", 0.0) != 0.0 {
                            if let Some((t, what)) = c.terminal.get(caller) {
                                if what != "Disconnect" {
                                    let d = format!("endpoint {} ended its disconnect attempt with {} at {:.3} s although its peer stayed reachable (only disconnect requests or acknowledgements were lost, for a few seconds) and kept stepping", caller, what, *t as f64 / 1e9);
                                    return viol(prop, "timeout_although_peer_reachable", d, 0);
                                }
                            }
                        }
                        if caller_done.map_or(*t_ns > caller_deadline, |t| t > caller_deadline) {
                            let d = format!("endpoint {} first transmitted its disconnect request at {:.3} s and had not reached a terminal event by {:.3} s (22 s budget + 11 step periods of {:.3} s); terminal event: {:?}", caller, *t0 as f64 / 1e9, caller_deadline as f64 / 1e9, gap_c as f64 / 1e9, c.terminal.get(caller));
                            return viol(prop, "caller_not_terminal_within_budget", d, 0);
                        }
                        // the peer learns of it from frames only: its own silence timer bounds it
                        if !c.connected.contains(&peer) {
                            continue;
                        }
                        // a peer that has itself begun to disconnect runs its own retry budget
                        // (checked as a caller in its own right)
                        if c.first_disc_ns.contains_key(&peer) {
                            continue;
                        }
                        let timeout_ns = cfg_of(cx.plan, peer).map_or(0, |x| x.active_timeout_ms) * 1_000_000;
                        let gap_p = self.max_step_gap_ns.get(&peer).cloned().unwrap_or(0);
                        let heard = c.last_heard_ns.get(&peer).cloned().unwrap_or(0);
                        let peer_deadline = (*t0 + 22_000_000_000).max(heard + timeout_ns) + 2 * gap_p + 1_000_000_000;
                        let peer_done = c.terminal.get(&peer).map(|x| x.0);
                        if peer_done.map_or(*t_ns > peer_deadline, |t| t > peer_deadline) {
                            let d = format!("endpoint {} (peer of the disconnecting endpoint {}) had not reached a terminal event by {:.3} s (disconnect first sent at {:.3} s, peer last heard at {:.3} s, its active timeout {} ms); terminal event: {:?}", peer, caller, peer_deadline as f64 / 1e9, *t0 as f64 / 1e9, heard as f64 / 1e9, timeout_ns / 1_000_000, c.terminal.get(&peer));
                            return viol(prop, "peer_not_terminal_within_budget", d, 0);
                        }
                    }
                }
            }
            _ => (),
        }
        None
    }

    fn reach(&self, out: &mut BTreeMap<String, u64>) {
        let mut a = |k: &str, v: u64| *out.entry(k.to_string()).or_insert(0) += v;
        a("disconnect_flush_guarantees_checked", self.flush_checked);
        a("disconnect_deadlines_checked", self.deadlines_checked);
        a("blackouts_started_after_a_disconnect_call", self.blackout_after_call);
    }

    fn nontrivial(&self) -> bool {
        self.flush_checked + self.deadlines_checked >= 1
    }
}
