//! History oracles over application-level traffic: what was submitted, what was delivered, in
//! which order, with which bytes (C01, C02, C04, C05, C20). One instance watches every
//! direction of every connection in the run.

use crate::plan::*;
use crate::world::*;

use std::collections::{BTreeMap, VecDeque};
use std::rc::Rc;

#[derive(Clone, Debug, Default)]
pub struct TransportClauses {
    /// C01: per-channel subsequence, at most once, byte-exact, right channel
    pub order: bool,
    /// C02 safety: a delivery never passes an undelivered Reliable packet of its channel
    pub reliable_not_skipped: bool,
    /// C02 liveness: at the end everything Reliable is delivered and senders are quiescent
    pub reliable_live: bool,
    /// C05: global order across channels, only TimeSensitive may be missing, all else delivered
    pub ideal: bool,
    /// C04: no emitted datagram exceeds 1472 bytes
    pub frame_size: bool,
    /// C20: send_buffer_size() equals the model after every call
    pub buffer_model: bool,
}

struct Sub {
    ch: u8,
    mode: u8,
    payload: Rc<Vec<u8>>,
    delivered: bool,
    call: u64,
}

#[derive(Default)]
struct Dir {
    subs: Vec<Sub>,
    by_ch: BTreeMap<u8, Vec<usize>>,
    ch_ptr: BTreeMap<u8, usize>,
    global_ptr: usize,
    delivered: u64,
    skipped_ts_ideal: u64,
    ts_dropped_traces: u64,
    // C20 model
    queue: VecDeque<usize>,
    emitted: BTreeMap<u32, u64>,
    /// receiver-reported window base / one past the newest id (from the wire, see C12)
    reported_base: Option<u32>,
    next_id: Option<u32>,
    model_size: u64,
    model_broken: bool,
    /// the connection reported a terminal event (or was dropped): no liveness claim any more
    ended: bool,
}

pub struct TransportOracle {
    property: &'static str,
    clauses: TransportClauses,
    dirs: BTreeMap<(usize, usize), Dir>,
    /// World B: submissions of a sender's previous incarnation. The receiver's connection to
    /// that incarnation outlives the crash (until its silence timeout), and frames still in
    /// flight are delivered on it: they are matched here until the first delivery of the new
    /// incarnation's packets.
    old_dirs: BTreeMap<(usize, usize), Dir>,
    old_generation_deliveries: u64,
    /// latest (send_buffer_size, packets queued or awaiting acknowledgement) per direction
    last_tx: BTreeMap<(usize, usize), (u64, u64)>,
    /// (caller, peer) -> number of submissions at the time of the caller's first disconnect call,
    /// and whether that call was the graceful disconnect()
    disc_calls: BTreeMap<(usize, usize), (usize, bool)>,
    /// clients that have reported Connect since they were created
    connected_clients: std::collections::BTreeSet<usize>,
    /// channel on which packets too short to carry a header travel
    short_ch: u8,
    hc_owner: BTreeMap<u64, (usize, Option<usize>)>,
    // reach
    deliveries: u64,
    multi_fragment_deliveries: u64,
    short_deliveries: u64,
    skipped_nonreliable: u64,
    wrap_packet: bool,
    wrap_frame: bool,
    max_frame: usize,
    buffer_checks: u64,
    ts_drops: u64,
    quiescent_end: u64,
    faults_seen: u64,
    last_pkt_id: BTreeMap<usize, u32>,
    last_frame_id: BTreeMap<usize, u32>,
}

impl TransportOracle {
    pub fn new(property: &'static str, clauses: TransportClauses, plan: &Plan) -> Self {
        Self {
            property,
            clauses,
            dirs: BTreeMap::new(),
            old_dirs: BTreeMap::new(),
            old_generation_deliveries: 0,
            last_tx: BTreeMap::new(),
            disc_calls: BTreeMap::new(),
            connected_clients: Default::default(),
            short_ch: plan.param("short_ch", 0.0) as u8,
            hc_owner: BTreeMap::new(),
            deliveries: 0,
            multi_fragment_deliveries: 0,
            short_deliveries: 0,
            skipped_nonreliable: 0,
            wrap_packet: false,
            wrap_frame: false,
            max_frame: 0,
            buffer_checks: 0,
            ts_drops: 0,
            quiescent_end: 0,
            faults_seen: 0,
            last_pkt_id: BTreeMap::new(),
            last_frame_id: BTreeMap::new(),
        }
    }

}

fn viol(property: &str, clause: &str, detail: String, at_call: u64) -> Option<Violation> {
    Some(Violation { property: property.to_string(), clause: clause.to_string(), detail, at_call })
}

pub fn peer_of(plan: &Plan, ep: usize) -> Option<usize> {
    match &plan.endpoints[ep].kind {
        EndpointKind::Hc { peer, .. } => Some(*peer),
        EndpointKind::Client { server, .. } => Some(*server),
        _ => None,
    }
}

fn describe(p: &[u8]) -> String {
    match parse_payload(p) {
        Some((ep, ch, mode, tag, len)) => format!("packet(ep={} ch={} mode={} tag={} hdr_len={} actual_len={})", ep, ch, mode_name(mode), tag, len, p.len()),
        None => format!("packet(short/untagged len={} bytes={:02x?})", p.len(), &p[..p.len().min(12)]),
    }
}

impl Oracle for TransportOracle {
    fn on(&mut self, rec: &Rec, cx: &Cx) -> Option<Violation> {
        let prop = self.property;
        match rec {
            Rec::Call { op: Op::Create { ep }, skipped: false, .. } => {
                // a new incarnation of an endpoint starts fresh sequences in both directions
                let ep = *ep;
                self.connected_clients.remove(&ep);
                let keys: Vec<(usize, usize)> = self.dirs.keys().filter(|(a, b)| *a == ep || *b == ep).cloned().collect();
                let world_b = !matches!(cx.plan.endpoints[ep].kind, EndpointKind::Hc { .. });
                for k in keys {
                    // World B, the other side's sequence towards this address: it belongs to the
                    // peer's connection, which lives on until the peer reports its end (or a new
                    // Connect for the address); nothing to reset here
                    if world_b && k.1 == ep && k.0 != ep {
                        continue;
                    }
                    let d = self.dirs.remove(&k);
                    self.old_dirs.remove(&k);
                    if let (true, true, Some(mut d)) = (world_b, k.0 == ep, d) {
                        // what the previous incarnation sent may still arrive on the peer's
                        // connection to it
                        d.ended = true;
                        self.old_dirs.insert(k, d);
                    }
                }
            }
            Rec::Event { ep, peer: None, ev: AppEvent::Connect, .. } => {
                self.connected_clients.insert(*ep);
            }
            Rec::Event { ep, peer: Some(peer), ev: AppEvent::Connect, .. } => {
                // a new server-side connection: what the server queued on the previous one (for
                // instance towards a crashed client it had not yet timed out) is gone with it
                self.dirs.remove(&(*ep, *peer));
                self.old_dirs.remove(&(*ep, *peer));
            }
            Rec::Submit { call, ep, to, ch, mode, payload, accepted, .. } => {
                if !*accepted {
                    return None;
                }
                let dst = to.or_else(|| peer_of(cx.plan, *ep))?;
                let dir = self.dirs.entry((*ep, dst)).or_default();
                let idx = dir.subs.len();
                dir.subs.push(Sub { ch: *ch, mode: *mode, payload: payload.clone(), delivered: false, call: *call });
                dir.by_ch.entry(*ch).or_default().push(idx);
                dir.queue.push_back(idx);
                dir.model_size += payload.len() as u64;
            }
            Rec::Call { op: Op::Disconnect { ep, to } | Op::DisconnectNow { ep, to }, skipped: false, .. } => {
                let graceful = matches!(rec, Rec::Call { op: Op::Disconnect { .. }, .. });
                // a client that gives up while its handshake is still pending abandons what it
                // had queued behind it: no connection ever existed
                if matches!(cx.plan.endpoints[*ep].kind, EndpointKind::Client { .. }) && !self.connected_clients.contains(ep) {
                    if let Some(dst) = peer_of(cx.plan, *ep) {
                        self.dirs.entry((*ep, dst)).or_default().ended = true;
                    }
                }
                if let Some(dst) = to.or_else(|| peer_of(cx.plan, *ep)) {
                    let n = self.dirs.get(&(*ep, dst)).map_or(0, |d| d.subs.len());
                    self.disc_calls.entry((*ep, dst)).or_insert((n, graceful));
                }
            }
            Rec::Event { call, ep, peer, ev: AppEvent::Disconnect, .. } if self.clauses.ideal => {
                // ideal network: a graceful disconnect() by the peer flushes everything it had
                // accepted before the call (all modes but TimeSensitive) ahead of the Disconnect
                let other = peer.or_else(|| peer_of(cx.plan, *ep));
                let mut bad = None;
                if let Some(other) = other {
                    if let (Some(&(n, true)), None) = (self.disc_calls.get(&(other, *ep)), self.disc_calls.get(&(*ep, other))) {
                        if let Some(dir) = self.dirs.get(&(other, *ep)) {
                            if let Some((i, s)) = dir.subs.iter().enumerate().take(n).find(|(_, s)| s.mode != MODE_TIME_SENSITIVE && !s.delivered) {
                                bad = Some(format!("endpoint {} saw Disconnect after the graceful disconnect() of endpoint {} on an ideal network, but submission #{} ({}), accepted before that call, was never delivered", ep, other, i, describe(&s.payload)));
                            }
                        }
                    }
                    for k in [(*ep, other), (other, *ep)] {
                        self.dirs.entry(k).or_default().ended = true;
                    }
                }
                if let Some(d) = bad {
                    return viol(prop, "ideal_not_delivered", d, *call);
                }
            }
            Rec::Event { ep, peer, ev: AppEvent::Disconnect | AppEvent::Error(_), .. } => {
                if let Some(other) = peer.or_else(|| peer_of(cx.plan, *ep)) {
                    for k in [(*ep, other), (other, *ep)] {
                        self.dirs.entry(k).or_default().ended = true;
                    }
                }
            }
            Rec::Call { op: Op::ServerDrop { ep, to }, skipped: false, .. } => {
                for k in [(*ep, *to), (*to, *ep)] {
                    self.dirs.entry(k).or_default().ended = true;
                }
            }
            Rec::Call { op: Op::Destroy { ep }, skipped: false, .. } => {
                for (k, d) in self.dirs.iter_mut() {
                    if k.0 == *ep || k.1 == *ep {
                        d.ended = true;
                    }
                }
            }
            Rec::Event { call, ep, peer, ev: AppEvent::Receive(p), .. } => {
                let src = peer.or_else(|| peer_of(cx.plan, *ep))?;
                self.deliveries += 1;
                if p.len() > uflow::MAX_FRAGMENT_SIZE {
                    self.multi_fragment_deliveries += 1;
                }
                let hdr = parse_payload(p);
                let ch = match hdr {
                    Some((_, ch, _, _, _)) => ch,
                    None => {
                        self.short_deliveries += 1;
                        self.short_ch
                    }
                };
                let property_order = self.clauses.order || self.clauses.reliable_not_skipped || self.clauses.ideal || self.clauses.reliable_live;
                if !property_order {
                    return None;
                }
                let key = (src, *ep);
                // (only when a previous incarnation exists: the scan is linear)
                let has_old = self.old_dirs.contains_key(&key);
                let in_current = has_old && self.dirs.get(&key).map_or(false, |d| d.subs.iter().any(|s| *s.payload == **p));
                let use_old = has_old && !in_current && self.old_dirs.get(&key).map_or(false, |d| d.subs.iter().any(|s| *s.payload == **p));
                if in_current && self.old_dirs.remove(&key).is_some() {
                    // the receiver now serves the new incarnation; nothing older may follow
                }
                if use_old {
                    self.old_generation_deliveries += 1;
                }
                let dir = match if use_old { self.old_dirs.get_mut(&key) } else { self.dirs.get_mut(&key) } {
                    Some(d) => d,
                    None => {
                        return viol(prop, "delivered_never_submitted", format!("endpoint {} received {} but endpoint {} never submitted anything", ep, describe(p), src), *call);
                    }
                };
                dir.delivered += 1;
                // per-channel greedy subsequence match
                let list = dir.by_ch.get(&ch).map(|v| v.as_slice()).unwrap_or(&[]);
                let start = *dir.ch_ptr.get(&ch).unwrap_or(&0);
                let mut found = None;
                let ideal = self.clauses.ideal;
                for (k, &si) in list.iter().enumerate().skip(start) {
                    // on an ideal network nothing before the global pointer can still arrive, so
                    // an identical (short, untagged) payload must be matched at or after it
                    if ideal && si < dir.global_ptr {
                        continue;
                    }
                    if *dir.subs[si].payload == **p {
                        found = Some(k);
                        break;
                    }
                }
                let Some(k) = found else {
                    // classify for the report
                    let anywhere = dir.subs.iter().position(|s| *s.payload == **p);
                    let detail = match anywhere {
                        Some(si) if dir.subs[si].delivered && dir.subs[si].ch == ch => format!(
                            "{} delivered to endpoint {} a second time or out of order (submission #{} on channel {})", describe(p), ep, si, ch),
                        Some(si) if dir.subs[si].ch != ch => format!("{} delivered on the wrong channel", describe(p)),
                        Some(si) => format!("{} delivered out of order (submission #{})", describe(p), si),
                        None => format!("{} delivered to endpoint {} was never submitted by endpoint {} (altered contents?)", describe(p), ep, src),
                    };
                    if self.clauses.order || self.clauses.ideal {
                        return viol(prop, "not_a_subsequence", detail, *call);
                    }
                    return None;
                };
                // skipped entries on this channel
                let mut skipped_reliable = None;
                for &si in list[start..k].iter() {
                    if dir.subs[si].mode == MODE_RELIABLE {
                        skipped_reliable = Some(si);
                    } else {
                        self.skipped_nonreliable += 1;
                    }
                }
                let si = list[k];
                dir.subs[si].delivered = true;
                dir.ch_ptr.insert(ch, k + 1);
                if let Some(sr) = skipped_reliable {
                    if self.clauses.reliable_not_skipped || self.clauses.ideal {
                        let d = format!(
                            "{} delivered on channel {} although Reliable submission #{} ({}) of the same channel, submitted earlier, was not delivered",
                            describe(p), ch, sr, describe(&dir.subs[sr].payload));
                        return viol(prop, "reliable_skipped", d, *call);
                    }
                }
                if self.clauses.ideal {
                    // global order: the match must not precede the global pointer
                    if si < dir.global_ptr {
                        return viol(prop, "global_order", format!("{} (submission #{}) delivered after submission #{}", describe(p), si, dir.global_ptr - 1), *call);
                    }
                    for j in dir.global_ptr..si {
                        if dir.subs[j].mode != MODE_TIME_SENSITIVE {
                            let d = format!("on an ideal network submission #{} ({}) was passed over by {}", j, describe(&dir.subs[j].payload), describe(p));
                            return viol(prop, "ideal_skip", d, *call);
                        }
                        dir.skipped_ts_ideal += 1;
                    }
                    dir.global_ptr = si + 1;
                }
            }
            Rec::Wire(w) => {
                self.max_frame = self.max_frame.max(w.bytes.len());
                if !w.fate.is_plain() {
                    self.faults_seen += 1;
                }
                if self.clauses.frame_size && w.bytes.len() > uflow::MAX_FRAME_SIZE && !matches!(cx.plan.endpoints[w.src].kind, EndpointKind::Raw) {
                    return viol(prop, "frame_too_large", format!("endpoint {} emitted a datagram of {} bytes", w.src, w.bytes.len()), w.call);
                }
            }
            Rec::Trace { call, ep, hc, ev } => {
                use uflow::verif::trace::Event as T;
                match ev {
                    T::TsDropped { len } => {
                        self.ts_drops += 1;
                        if let Some(dst) = self.owner_dst(*hc, *ep, cx) {
                            if let Some(dir) = self.dirs.get_mut(&(*ep, dst)) {
                                dir.ts_dropped_traces += 1;
                                match dir.queue.pop_front() {
                                    Some(si) if dir.subs[si].mode == MODE_TIME_SENSITIVE && dir.subs[si].payload.len() == *len => {
                                        dir.model_size -= *len as u64;
                                    }
                                    _ => dir.model_broken = true,
                                }
                            }
                        }
                    }
                    T::PacketEmitted { sequence_id, len, .. } => {
                        if let Some(prev) = self.last_pkt_id.insert(*ep, *sequence_id) {
                            if *sequence_id < prev {
                                self.wrap_packet = true;
                            }
                        }
                        if let Some(dst) = self.owner_dst(*hc, *ep, cx) {
                            if let Some(dir) = self.dirs.get_mut(&(*ep, dst)) {
                                match dir.queue.pop_front() {
                                    Some(si) if dir.subs[si].payload.len() == *len => {
                                        dir.emitted.insert(*sequence_id, *len as u64);
                                        if dir.reported_base.is_none() {
                                            dir.reported_base = Some(*sequence_id);
                                        }
                                        dir.next_id = Some((*sequence_id + 1) & 0xFFFFF);
                                    }
                                    _ => dir.model_broken = true,
                                }
                            }
                        }
                    }

                    T::HcCreated { .. } => {
                        self.hc_owner.insert(*hc, (*ep, None));
                    }
                    _ => (),
                }
                let _ = call;
            }
            Rec::Consumed { ep, src: Some(src), bytes, .. } => {
                // "acknowledged by the peer": the packet window base of the ack frames the sender
                // reads, validated against what it has sent (independent of its own bookkeeping)
                if !self.clauses.buffer_model || bytes.first() != Some(&FRAME_ACK) || matches!(cx.plan.endpoints[*src].kind, EndpointKind::Raw) {
                    return None;
                }
                use uflow::verif::Serialize;
                let Some(uflow::verif::Frame::AckFrame(f)) = uflow::verif::Frame::read(bytes) else { return None };
                let Some(dir) = self.dirs.get_mut(&(*ep, *src)) else { return None };
                let (Some(base), Some(next)) = (dir.reported_base, dir.next_id) else { return None };
                let b = f.packet_window_base_id;
                if b > 0xFFFFF {
                    return None;
                }
                let delta = b.wrapping_sub(base) & 0xFFFFF;
                let span = next.wrapping_sub(base) & 0xFFFFF;
                if delta == 0 || delta > span {
                    return None;
                }
                let mut id = base;
                while id != b {
                    match dir.emitted.remove(&id) {
                        Some(len) => dir.model_size -= len,
                        None => dir.model_broken = true,
                    }
                    id = (id + 1) & 0xFFFFF;
                }
                dir.reported_base = Some(b);
            }
            Rec::Probe { call, ep, probe, .. } => {
                // remember which server-side half connection talks to which client
                if let Probe::Server(s) = probe {
                    for c in s.clients.iter() {
                        if let Some(h) = &c.hc {
                            if let Some(peer) = cx.ep_of(&c.address) {
                                self.hc_owner.insert(h.verif_id, (*ep, Some(peer)));
                            }
                        }
                    }
                }
                if let Probe::Hc(h) = probe {
                    if let Some(prev) = self.last_frame_id.insert(*ep, h.tx_frame_next_id) {
                        if h.tx_frame_next_id < prev {
                            self.wrap_frame = true;
                        }
                    }
                }
                if self.clauses.reliable_live {
                    let t = |h: &uflow::verif::HcProbe| (h.tx_total_size as u64, (h.send_queue_len + h.pending_queue_len + h.resend_queue_len) as u64);
                    match probe {
                        Probe::Hc(h) => {
                            if let Some(dst) = peer_of(cx.plan, *ep) {
                                self.last_tx.insert((*ep, dst), t(h));
                            }
                        }
                        Probe::Client(c) => {
                            if let (Some(h), Some(dst)) = (&c.hc, peer_of(cx.plan, *ep)) {
                                self.last_tx.insert((*ep, dst), t(h));
                            }
                        }
                        Probe::Server(s) => {
                            for c in s.clients.iter() {
                                if let (Some(h), Some(dst)) = (&c.hc, cx.ep_of(&c.address)) {
                                    self.last_tx.insert((*ep, dst), t(h));
                                }
                            }
                        }
                        Probe::Rate(_) | Probe::None => (),
                    }
                }
                if self.clauses.buffer_model {
                    let mut checks: Vec<(usize, u64)> = Vec::new();
                    match probe {
                        Probe::Hc(h) => {
                            if let Some(dst) = peer_of(cx.plan, *ep) {
                                checks.push((dst, h.tx_total_size as u64));
                            }
                        }
                        Probe::Client(c) => {
                            if let (Some(h), Some(dst)) = (&c.hc, peer_of(cx.plan, *ep)) {
                                checks.push((dst, h.tx_total_size as u64));
                            }
                        }
                        Probe::Server(s) => {
                            for c in s.clients.iter() {
                                if let (Some(h), Some(dst)) = (&c.hc, cx.ep_of(&c.address)) {
                                    checks.push((dst, h.tx_total_size as u64));
                                }
                            }
                        }
                        Probe::Rate(_) | Probe::None => (),
                    }
                    for (dst, reported) in checks {
                        self.buffer_checks += 1;
                        let (model, broken) = self.dirs.get(&(*ep, dst)).map_or((0, false), |d| (d.model_size, d.model_broken));
                        if broken {
                            return viol(prop, "buffer_model_desync", format!("endpoint {}: trace events do not match the send queue model", ep), *call);
                        }
                        if model != reported {
                            let d = format!("endpoint {} -> {}: send_buffer_size() = {} but accepted - acknowledged - dropped = {}", ep, dst, reported, model);
                            return viol(prop, "buffer_size_mismatch", d, *call);
                        }
                    }
                }
            }
            Rec::ApiSize { call, ep, peer_addr, size } if self.clauses.buffer_model => {
                let dst = match peer_addr {
                    Some(a) => cx.ep_of(a),
                    None => peer_of(cx.plan, *ep),
                };
                if let Some(dst) = dst {
                    let (model, broken) = self.dirs.get(&(*ep, dst)).map_or((0, false), |d| (d.model_size, d.model_broken));
                    if !broken && model != *size {
                        let d = format!("endpoint {} -> {}: the public send_buffer_size() answers {} for an established connection, accepted - acknowledged - dropped = {}", ep, dst, size, model);
                        return viol(prop, "api_send_buffer_size_mismatch", d, *call);
                    }
                    self.buffer_checks += 1;
                }
            }
            Rec::CallEnd { .. } => (),
            Rec::End { .. } => {
                let live = self.clauses.reliable_live && cx.plan.param("expect_live", 0.0) != 0.0;
                let ideal = self.clauses.ideal;
                if live || ideal {
                    // (families in which the applications end nothing, the link loses nothing and
                    // every data frame is answered well inside the silence timeout: there the end of
                    // a connection excuses no lost packet)
                    let must_last = cx.plan.param("connection_must_last", 0.0) != 0.0;
                    for ((src, dst), dir) in self.dirs.iter() {
                        if dir.ended && must_last {
                            if let Some((i, s)) = dir.subs.iter().enumerate().find(|(_, s)| (if ideal { s.mode != MODE_TIME_SENSITIVE } else { s.mode == MODE_RELIABLE }) && !s.delivered) {
                                let d = format!(
                                    "{} -> {}: submission #{} ({}, call {}) was never delivered ({} of {} delivered): the connection ended although the link lost nothing, both applications kept stepping and neither side was silent for its timeout",
                                    src, dst, i, describe(&s.payload), s.call, dir.delivered, dir.subs.len());
                                return viol(prop, if ideal { "ideal_not_delivered" } else { "reliable_not_delivered" }, d, 0);
                            }
                        }
                        if dir.ended {
                            // the connection itself ended (timeout, disconnect, drop): what was
                            // still queued is lost with it, which is not this property's business
                            continue;
                        }
                        for (i, s) in dir.subs.iter().enumerate() {
                            let must = if ideal { s.mode != MODE_TIME_SENSITIVE } else { s.mode == MODE_RELIABLE };
                            if must && !s.delivered {
                                let clause = if ideal { "ideal_not_delivered" } else { "reliable_not_delivered" };
                                let d = format!(
                                    "{} -> {}: submission #{} ({}, call {}) still undelivered at the end of the run ({} of {} delivered)",
                                    src, dst, i, describe(&s.payload), s.call, dir.delivered, dir.subs.len());
                                return viol(prop, clause, d, 0);
                            }
                        }
                        // ... after which the sender reports nothing pending and an empty buffer
                        if live {
                            if let Some(&(size, queued)) = self.last_tx.get(&(*src, *dst)) {
                                if size != 0 || queued != 0 {
                                    let d = format!("{} -> {}: every Reliable packet was delivered and the network has been fair for the whole liveness budget, but the sender still reports send_buffer_size() = {} and {} packets queued or unacknowledged", src, dst, size, queued);
                                    return viol(prop, "sender_not_drained", d, 0);
                                }
                            }
                        }
                        if ideal && dir.skipped_ts_ideal + dir.subs[dir.global_ptr..].iter().filter(|s| s.mode == MODE_TIME_SENSITIVE).count() as u64 != dir.ts_dropped_traces {
                            let d = format!("{} -> {}: {} TimeSensitive packets missing at the receiver but the sender discarded {}", src, dst,
                                dir.skipped_ts_ideal + dir.subs[dir.global_ptr..].iter().filter(|s| s.mode == MODE_TIME_SENSITIVE).count() as u64, dir.ts_dropped_traces);
                            return viol(prop, "ideal_ts_lost_in_transit", d, 0);
                        }
                    }
                    self.quiescent_end += 1;
                }
            }
            _ => (),
        }
        None
    }

    fn reach(&self, out: &mut BTreeMap<String, u64>) {
        let mut a = |k: &str, v: u64| *out.entry(k.to_string()).or_insert(0) += v;
        a("packets_delivered_checked", self.deliveries);
        a("multi_fragment_deliveries", self.multi_fragment_deliveries);
        a("deliveries_from_a_crashed_peers_previous_incarnation", self.old_generation_deliveries);
        a("short_untagged_deliveries", self.short_deliveries);
        a("nonreliable_packets_skipped_by_receiver", self.skipped_nonreliable);
        a("runs_crossing_packet_id_wrap", self.wrap_packet as u64);
        a("runs_crossing_frame_id_wrap", self.wrap_frame as u64);
        a("timesensitive_dropped_by_sender", self.ts_drops);
        a("buffer_model_checks", self.buffer_checks);
        a("runs_checked_at_end_for_completeness", self.quiescent_end);
        let m = out.entry("max_frame_bytes".to_string()).or_insert(0);
        *m = (*m).max(self.max_frame as u64);
    }

    fn nontrivial(&self) -> bool {
        self.deliveries >= 10
    }
}

impl TransportOracle {
    fn owner_dst(&self, hc: u64, ep: usize, cx: &Cx) -> Option<usize> {
        match self.hc_owner.get(&hc) {
            Some((_, Some(peer))) => Some(*peer),
            _ => peer_of(cx.plan, ep),
        }
    }
}

// ------------------------------------------------------------------------------------------ C11

pub const PROBE_TAG: u32 = 1_000_000;

/// C11: after the last fault, newly submitted packets of every mode get through, and with a
/// standing backlog the allowed rate leaves the floor.
pub struct RecoveryOracle {
    property: &'static str,
    /// (sender ep, tag) -> (mode, delivered)
    probes: BTreeMap<(usize, u32), (u8, bool)>,
    last_x: BTreeMap<usize, (u32, u32)>,
    /// whether the sender could transmit at once when it was last probed
    idle: BTreeMap<usize, bool>,
    healed: bool,
    delivered: u64,
    checked_end: u64,
    blackout_seen: bool,
    floor_seen: bool,
}

impl RecoveryOracle {
    pub fn new(property: &'static str) -> Self {
        Self { property, probes: BTreeMap::new(), last_x: BTreeMap::new(), idle: BTreeMap::new(), healed: false, delivered: 0, checked_end: 0, blackout_seen: false, floor_seen: false }
    }
}

impl Oracle for RecoveryOracle {
    fn on(&mut self, rec: &Rec, cx: &Cx) -> Option<Violation> {
        let prop = self.property;
        match rec {
            Rec::Call { op: Op::Mark { name }, .. } if name == "heal" => self.healed = true,
            Rec::Call { op: Op::Link { rule, .. }, .. } => {
                if rule.blackout {
                    self.blackout_seen = true;
                }
            }
            Rec::Submit { ep, tag, mode, accepted: true, .. } if *tag >= PROBE_TAG => {
                // a TimeSensitive packet behind a backlog, or without credit or window space, is
                // legitimately dropped by the sender: only probes submitted to an idle sender count
                if *mode != MODE_TIME_SENSITIVE || self.idle.get(ep).cloned().unwrap_or(false) {
                    self.probes.insert((*ep, *tag), (*mode, false));
                }
            }
            Rec::Event { ev: AppEvent::Receive(p), .. } => {
                self.delivered += 1;
                if let Some((src, _, _, tag, _)) = parse_payload(p) {
                    if let Some(e) = self.probes.get_mut(&(src, tag)) {
                        e.1 = true;
                    }
                }
            }
            Rec::Probe { ep, probe: Probe::Hc(h), .. } => {
                self.last_x.insert(*ep, (h.send_rate, h.max_send_rate));
                let frames_free = h.tx_frame_window_size.saturating_sub(h.tx_frame_next_id.wrapping_sub(h.tx_frame_window_base_id));
                let packets_free = h.tx_packet_window_size.saturating_sub(h.tx_packet_next_id.wrapping_sub(h.tx_packet_base_id) & 0xFFFFF);
                self.idle.insert(*ep, h.send_queue_len == 0 && h.pending_queue_len == 0 && h.ack_queue_len == 0 && !h.sync_reply && h.flush_alloc >= 0 && frames_free >= 2 && packets_free >= 1 && h.tx_alloc + 64 <= h.tx_max_alloc);
                if h.send_rate <= 23 {
                    self.floor_seen = true;
                }
            }
            Rec::End { .. } => {
                self.checked_end += 1;
                for ((ep, tag), (mode, delivered)) in self.probes.iter() {
                    if *mode != MODE_TIME_SENSITIVE && !*delivered {
                        let d = format!("probe packet (endpoint {}, tag {}, {}) submitted after the last fault was never delivered ({} packets delivered in the run); sender's allowed rate at the end: {:?} B/s", ep, tag, mode_name(*mode), self.delivered, self.last_x.get(ep).map(|x| x.0));
                        return viol(prop, "probe_not_delivered_after_heal", d, 0);
                    }
                }
                let mut ts: BTreeMap<usize, (u32, u32)> = BTreeMap::new();
                for ((ep, _), (mode, delivered)) in self.probes.iter() {
                    if *mode == MODE_TIME_SENSITIVE {
                        let e = ts.entry(*ep).or_insert((0, 0));
                        e.0 += 1;
                        e.1 += *delivered as u32;
                    }
                }
                for (ep, (n, got)) in ts {
                    if n >= 10 && got == 0 {
                        return viol(prop, "timesensitive_probes_never_delivered", format!("none of the {} TimeSensitive probes of endpoint {} (one per second, flushed at once) submitted after the last fault was delivered", n, ep), 0);
                    }
                }
                if cx.plan.param("expect_rate_recovery", 0.0) != 0.0 {
                    for (ep, (x, ceiling)) in self.last_x.iter() {
                        if cx.plan.param(&format!("backlog_ep{}", ep), 0.0) == 0.0 {
                            continue;
                        }
                        let want = (*ceiling).min(230);
                        if *x < want {
                            return viol(prop, "rate_pinned_at_floor", format!("endpoint {}: allowed rate {} B/s after 600 s on a clean link with a standing backlog (ceiling {} B/s; the s/64 floor is 23 B/s)", ep, x, ceiling), 0);
                        }
                    }
                }
            }
            _ => (),
        }
        None
    }

    fn reach(&self, out: &mut BTreeMap<String, u64>) {
        let mut a = |k: &str, v: u64| *out.entry(k.to_string()).or_insert(0) += v;
        a("recovery_runs_checked_at_end", self.checked_end);
        a("recovery_probes_submitted", self.probes.len() as u64);
        a("runs_with_blackout", self.blackout_seen as u64);
        a("runs_where_rate_hit_the_floor", self.floor_seen as u64);
    }

    fn nontrivial(&self) -> bool {
        !self.probes.is_empty() || self.checked_end > 0
    }
}

// ------------------------------------------------------------------------------------------ C19

/// C19: every block is released with the layout it was allocated with, and after every endpoint
/// has been dropped nothing they allocated is left.
pub struct HeapOracle {
    property: &'static str,
    checked: u64,
    multi: u64,
}

impl HeapOracle {
    pub fn new(property: &'static str) -> Self {
        Self { property, checked: 0, multi: 0 }
    }
}

impl Oracle for HeapOracle {
    fn on(&mut self, rec: &Rec, _cx: &Cx) -> Option<Violation> {
        let prop = self.property;
        match rec {
            Rec::Event { ev: AppEvent::Receive(p), .. } => {
                if p.len() > uflow::MAX_FRAGMENT_SIZE && p.len() % uflow::MAX_FRAGMENT_SIZE != 0 {
                    self.multi += 1;
                }
            }
            Rec::CallEnd { call, .. } => {
                if crate::alloc::double_frees() > 0 {
                    let (a, b) = crate::alloc::last_double_free();
                    crate::alloc::reset_double_frees();
                    return viol(prop, "double_free", format!("a block (allocated with size {}) was released a second time (as size {})", a, b), *call);
                }
                let m = crate::alloc::mismatches();
                if m > 0 {
                    let (asz, aal, dsz, dal) = crate::alloc::last_mismatch();
                    crate::alloc::reset_mismatches();
                    return viol(prop, "dealloc_layout_mismatch", format!("a block allocated with size {} align {} was released with size {} align {}", asz, aal, dsz, dal), *call);
                }
            }
            Rec::Teardown { live, live_blocks, zero_size, mismatches } => {
                self.checked += 1;
                if crate::alloc::double_frees() > 0 {
                    let (a, b) = crate::alloc::last_double_free();
                    crate::alloc::reset_double_frees();
                    return viol(prop, "double_free", format!("a block (allocated with size {}) was released a second time (as size {}) while the endpoints were dropped", a, b), 0);
                }
                if *zero_size > 0 {
                    return viol(prop, "zero_size_allocation", format!("{} blocks of size zero were requested from the allocator by library code (GlobalAlloc::alloc requires a non-zero size)", zero_size), 0);
                }
                for (i, b) in live_blocks.iter().enumerate() {
                    if *b != 0 && live[i] == 0 {
                        return viol(prop, "leak_after_teardown", format!("{} blocks (0 bytes) allocated by endpoint {} are still live after every endpoint was dropped", b, i), 0);
                    }
                }
                if *mismatches > 0 {
                    let (asz, aal, dsz, dal) = crate::alloc::last_mismatch();
                    crate::alloc::reset_mismatches();
                    return viol(prop, "dealloc_layout_mismatch", format!("{} deallocations with a layout different from the allocation (last: allocated size {} align {}, released as size {} align {})", mismatches, asz, aal, dsz, dal), 0);
                }
                for (i, l) in live.iter().enumerate() {
                    if *l != 0 {
                        return viol(prop, "leak_after_teardown", format!("{} bytes allocated by endpoint {} are still live after every endpoint was dropped", l, i), 0);
                    }
                }
            }
            _ => (),
        }
        None
    }

    fn reach(&self, out: &mut BTreeMap<String, u64>) {
        let mut a = |k: &str, v: u64| *out.entry(k.to_string()).or_insert(0) += v;
        a("teardowns_checked", self.checked);
        a("multi_fragment_non_multiple_deliveries", self.multi);
    }
}
