//! C14: an independent evaluation of the RFC 5348 bounds on every update of the allowed send
//! rate, fed by the trace taps in the rate computer (World U drives it directly with arbitrary
//! feedback histories; Worlds A/B supply the histories a real receiver produces).

use crate::plan::EndpointKind;
use crate::world::*;
use std::collections::BTreeMap;
use uflow::verif::trace::Event as T;

const S: f64 = 1472.0;
const FLOOR: u32 = 23; // s / t_mbi = 1472 / 64

fn viol(property: &str, clause: &str, detail: String, at_call: u64) -> Option<Violation> {
    Some(Violation { property: property.to_string(), clause: clause.to_string(), detail, at_call })
}

/// RFC 5348 section 3.1 with t_RTO = 4R and b = 1.
pub fn x_bps(r: f64, p: f64) -> f64 {
    let f = (2.0 * p / 3.0).sqrt() + 12.0 * (3.0 * p / 8.0).sqrt() * p * (1.0 + 32.0 * p * p);
    S / (r * f)
}

pub struct RfcOracle {
    property: &'static str,
    /// per half connection / rate computer: ceiling
    ceilings: BTreeMap<(usize, u64), u32>,
    last_x: BTreeMap<(usize, u64), u32>,
    feedback_in_call: BTreeMap<(usize, u64), u64>,
    /// World U: endpoints that have sent a frame; the report handed to the step() in progress
    rate_started: std::collections::BTreeSet<usize>,
    report_given: Option<(usize, u64)>,
    report_taken: Option<(usize, u64)>,
    reports_checked: u64,
    feedbacks: u64,
    expiries: u64,
    eqn_checks: u64,
    slowstart_checks: u64,
    leave_slowstart: u64,
    /// connections for which a loss event rate above zero has been reported
    loss_seen: std::collections::BTreeSet<(usize, u64)>,
    loss_in_slowstart_checks: u64,
    rtt_zero: u64,
    idle_checks: u64,
}

impl RfcOracle {
    pub fn new(property: &'static str) -> Self {
        Self { property, ceilings: BTreeMap::new(), last_x: BTreeMap::new(), feedback_in_call: BTreeMap::new(), rate_started: Default::default(), report_given: None, report_taken: None, reports_checked: 0, feedbacks: 0, expiries: 0, eqn_checks: 0, slowstart_checks: 0, leave_slowstart: 0, loss_seen: Default::default(), loss_in_slowstart_checks: 0, rtt_zero: 0, idle_checks: 0 }
    }

    fn ceiling(&self, ep: usize, hc: u64) -> u32 {
        self.ceilings.get(&(ep, hc)).cloned().unwrap_or(u32::MAX)
    }
}

impl RfcOracle {
    fn on_trace_feedback(&mut self, rec: &Rec, cx: &Cx) -> Option<Violation> {
        self.on(rec, cx)
    }
}

impl Oracle for RfcOracle {
    fn on(&mut self, rec: &Rec, cx: &Cx) -> Option<Violation> {
        let prop = self.property;
        match rec {
            Rec::Call { op: crate::plan::Op::RateSent { ep }, skipped: false, .. } => {
                self.rate_started.insert(*ep);
            }
            Rec::Call { call, op: crate::plan::Op::RateStep { ep, fb: Some(_) }, skipped: false, .. } => {
                if self.rate_started.contains(ep) {
                    self.report_given = Some((*ep, *call));
                }
            }
            Rec::CallEnd { call, ep: Some(ep), panic: None } => {
                // a feedback report handed to step() is processed by that step, whatever timer
                // happens to expire at the same moment
                if self.report_given == Some((*ep, *call)) {
                    self.reports_checked += 1;
                    if self.report_taken != Some((*ep, *call)) {
                        self.report_given = None;
                        return viol(prop, "feedback_report_ignored", format!("endpoint {}: the feedback report handed to step() in call {} was not processed (no RTT sample, no rate update)", ep, call), *call);
                    }
                    self.report_given = None;
                }
            }
            Rec::Trace { call, ep, ev: T::Feedback { .. }, .. } if self.report_given == Some((*ep, *call)) && self.report_taken != Some((*ep, *call)) => {
                self.report_taken = Some((*ep, *call));
                // fall through is not possible in a match: re-dispatch below
                return self.on_trace_feedback(rec, cx);
            }
            Rec::Trace { call, ep, hc, ev } => match ev {
                T::HcCreated { tx_bandwidth_limit, .. } => {
                    // World B clients: the ceiling is what the two configurations say, not what
                    // the connection was handed (a server may advertise the wrong field)
                    let mut ceiling = *tx_bandwidth_limit;
                    if let EndpointKind::Client { server, cfg } = &cx.plan.endpoints[*ep].kind {
                        if let EndpointKind::Server { cfg: sc, .. } = &cx.plan.endpoints[*server].kind {
                            ceiling = cfg.max_send_rate.min(sc.max_receive_rate).min(u32::MAX as u64) as u32;
                        }
                    }
                    self.ceilings.insert((*ep, *hc), ceiling);
                }
                T::Feedback { rtt_sample_ms, loss_rate, rtt_before_s, rtt_after_s, x_before, x_after, mode_before, mode_after, .. } => {
                    self.feedbacks += 1;
                    self.feedback_in_call.insert((*ep, *hc), *call);
                    let ceiling = self.ceiling(*ep, *hc);
                    let sample_s = *rtt_sample_ms as f64 / 1000.0;
                    if *rtt_sample_ms == 0 {
                        self.rtt_zero += 1;
                    }
                    // RTT estimate: 0.9 / 0.1 moving average, first sample as is
                    let expected = rtt_before_s.map_or(sample_s, |r| 0.9 * r + 0.1 * sample_s);
                    if (rtt_after_s - expected).abs() > 1e-9 * expected.abs().max(1.0) {
                        return viol(prop, "rtt_estimate_not_ewma", format!("endpoint {}: RTT estimate {:?} + sample {} s gave {} s, expected {} s", ep, rtt_before_s, sample_s, rtt_after_s, expected), *call);
                    }
                    if *x_after > ceiling {
                        return viol(prop, "rate_above_ceiling", format!("endpoint {}: feedback set the allowed rate to {} B/s, ceiling {} B/s", ep, x_after, ceiling), *call);
                    }
                    if *x_after < FLOOR.min(ceiling) {
                        return viol(prop, "rate_below_floor", format!("endpoint {}: feedback set the allowed rate to {} B/s, below the s/64 floor", ep, x_after), *call);
                    }
                    let r = *rtt_after_s;
                    match (mode_before, mode_after) {
                        (2, 2) => {
                            if *loss_rate > 0.0 {
                                self.eqn_checks += 1;
                                let bound = x_bps(r, *loss_rate).max(FLOOR as f64);
                                if *x_after as f64 > bound + 1.0 {
                                    return viol(prop, "rate_above_throughput_equation", format!("endpoint {}: allowed rate {} B/s with RTT estimate {} s and loss event rate {}: the TCP throughput equation allows {:.1} B/s", ep, x_after, r, loss_rate, bound), *call);
                                }
                            }
                        }
                        (1, 2) => {
                            // leaving slow start on the first loss report (RFC 5348 6.3.1): at most
                            // half the previous rate (or s/2R if it was the very first feedback)
                            self.leave_slowstart += 1;
                            let bound = (*x_before as f64 / 2.0).max((S / 2.0) / r).max(FLOOR as f64);
                            if *x_after as f64 > bound + 1.0 {
                                return viol(prop, "rate_after_first_loss", format!("endpoint {}: first loss report took the rate from {} to {} B/s (RTT {} s): at most {:.1}", ep, x_before, x_after, r, bound), *call);
                            }
                        }
                        (1, 1) => {
                            self.slowstart_checks += 1;
                            let bound = (2.0 * *x_before as f64).max(4380.0 / r);
                            if *x_after as f64 > bound + 1.0 {
                                return viol(prop, "slow_start_more_than_doubled", format!("endpoint {}: one feedback took the rate from {} to {} B/s in slow start (RTT {} s, initial window rate {:.1})", ep, x_before, x_after, r, 4380.0 / r), *call);
                            }
                            // "once loss has been reported it never exceeds the TCP throughput
                            // equation" does not depend on which mode the computer says it is in:
                            // the first report of a loss may leave half the previous rate
                            // (RFC 5348 6.3.1), every later one is bounded by the equation
                            if *loss_rate > 0.0 {
                                self.loss_in_slowstart_checks += 1;
                                let mut bound = x_bps(r, *loss_rate).max(FLOOR as f64);
                                if !self.loss_seen.contains(&(*ep, *hc)) {
                                    bound = bound.max(*x_before as f64 / 2.0).max((S / 2.0) / r);
                                }
                                if *x_after as f64 > bound + 1.0 {
                                    return viol(prop, "rate_above_throughput_equation", format!("endpoint {}: allowed rate {} B/s (before: {}) with RTT estimate {} s and loss event rate {} reported, still in slow start: the TCP throughput equation allows {:.1} B/s", ep, x_after, x_before, r, loss_rate, bound), *call);
                                }
                            }
                        }
                        _ => {
                            return viol(prop, "rate_mode_transition", format!("endpoint {}: rate computer went from mode {} to mode {} on feedback", ep, mode_before, mode_after), *call);
                        }
                    }
                    if *loss_rate > 0.0 {
                        self.loss_seen.insert((*ep, *hc));
                    }
                    self.last_x.insert((*ep, *hc), *x_after);
                }
                T::NoFeedbackExpired { x_before, x_after, .. } => {
                    self.expiries += 1;
                    self.feedback_in_call.insert((*ep, *hc), *call);
                    let ceiling = self.ceiling(*ep, *hc);
                    if *x_after > *x_before {
                        return viol(prop, "rate_increased_without_feedback", format!("endpoint {}: no-feedback expiry raised the allowed rate from {} to {} B/s", ep, x_before, x_after), *call);
                    }
                    let lower = (*x_before / 2).max(FLOOR).min(*x_before);
                    if *x_after < lower {
                        return viol(prop, "rate_more_than_halved", format!("endpoint {}: no-feedback expiry took the allowed rate from {} to {} B/s (at most halved, never below the s/64 floor)", ep, x_before, x_after), *call);
                    }
                    if *x_after > ceiling {
                        return viol(prop, "rate_above_ceiling", format!("endpoint {}: allowed rate {} B/s after expiry, ceiling {} B/s", ep, x_after, ceiling), *call);
                    }
                    self.last_x.insert((*ep, *hc), *x_after);
                }
                _ => (),
            },
            Rec::Probe { call, ep, probe, .. } => {
                // between events the rate must not move at all
                let mut xs: Vec<(u64, u32, u32)> = Vec::new();
                match probe {
                    Probe::Hc(h) => xs.push((h.verif_id, h.send_rate, h.max_send_rate)),
                    Probe::Client(c) => {
                        if let Some(h) = &c.hc {
                            xs.push((h.verif_id, h.send_rate, h.max_send_rate));
                        }
                    }
                    Probe::Server(s) => {
                        for c in s.clients.iter() {
                            if let Some(h) = &c.hc {
                                // the ceiling towards a client is what the two configurations
                                // say (the server's max_send_rate, the client's max_receive_rate),
                                // not what the connection was handed
                                let mut ceiling = h.max_send_rate;
                                if let (Some(cep), EndpointKind::Server { cfg: sc, .. }) = (cx.ep_of(&c.address), &cx.plan.endpoints[*ep].kind) {
                                    if let EndpointKind::Client { cfg, .. } = &cx.plan.endpoints[cep].kind {
                                        ceiling = sc.max_send_rate.min(cfg.max_receive_rate).min(u32::MAX as u64) as u32;
                                        self.ceilings.insert((*ep, h.verif_id), ceiling);
                                    }
                                }
                                xs.push((h.verif_id, h.send_rate, ceiling));
                            }
                        }
                    }
                    Probe::Rate(r) => {
                        xs.push((0, r.send_rate, r.max_send_rate));
                        self.ceilings.insert((*ep, 0), r.max_send_rate);
                    }
                    Probe::None => (),
                }
                for (hc, x, ceiling) in xs {
                    self.idle_checks += 1;
                    if x > ceiling {
                        return viol(prop, "rate_above_ceiling", format!("endpoint {}: allowed rate {} B/s, ceiling {} B/s", ep, x, ceiling), *call);
                    }
                    let updated_now = self.feedback_in_call.get(&(*ep, hc)) == Some(call);
                    if let Some(prev) = self.last_x.get(&(*ep, hc)) {
                        if !updated_now && x != *prev {
                            return viol(prop, "rate_changed_without_event", format!("endpoint {}: allowed rate moved from {} to {} B/s in a call that processed neither feedback nor a no-feedback expiry", ep, prev, x), *call);
                        }
                    }
                    self.last_x.insert((*ep, hc), x);
                }
                let _ = cx;
            }
            _ => (),
        }
        None
    }

    fn reach(&self, out: &mut BTreeMap<String, u64>) {
        let mut a = |k: &str, v: u64| *out.entry(k.to_string()).or_insert(0) += v;
        a("feedback_updates_checked", self.feedbacks);
        a("feedback_reports_handed_to_step_checked", self.reports_checked);
        a("nofeedback_expiries_checked", self.expiries);
        a("throughput_equation_checks", self.eqn_checks);
        a("slow_start_checks", self.slowstart_checks);
        a("slow_start_exits", self.leave_slowstart);
        a("loss_reported_while_in_slow_start_checks", self.loss_in_slowstart_checks);
        a("feedback_with_rtt_sample_zero", self.rtt_zero);
        a("rate_unchanged_between_events_checks", self.idle_checks);
    }

    fn nontrivial(&self) -> bool {
        self.feedbacks + self.expiries >= 3
    }
}
