//! Human-readable run log for triage (`uflow-sim trace <file>`); never used by checks.

use crate::plan::*;
use crate::world::*;
use uflow::verif as uv;
use uflow::verif::Serialize;

pub struct Tracer {
    pub verbose: bool,
}

pub fn frame_summary(bytes: &[u8]) -> String {
    match uv::Frame::read(bytes) {
        Some(uv::Frame::DataFrame(f)) => format!(
            "DATA#{}{} [{}]",
            f.sequence_id,
            if f.nonce { "n" } else { "" },
            f.datagrams.iter().map(|d| format!("p{}:{}/{} ch{} w{} c{} {}B", d.sequence_id, d.fragment_id, d.fragment_id_last, d.channel_id, d.window_parent_lead, d.channel_parent_lead, d.data.len())).collect::<Vec<_>>().join(" ")
        ),
        Some(uv::Frame::AckFrame(f)) => format!(
            "ACK fbase={} pbase={} [{}]",
            f.frame_window_base_id,
            f.packet_window_base_id,
            f.frame_acks.iter().map(|g| format!("{}:{:x}{}", g.base_id, g.bitfield, if g.nonce { "n" } else { "" })).collect::<Vec<_>>().join(" ")
        ),
        Some(uv::Frame::SyncFrame(f)) => format!("SYNC frame={:?} packet={:?}", f.next_frame_id, f.next_packet_id),
        Some(uv::Frame::HandshakeSynFrame(f)) => format!("SYN v{} nonce={:08x} rate={} pkt={} alloc={}", f.version, f.nonce, f.max_receive_rate, f.max_packet_size, f.max_receive_alloc),
        Some(uv::Frame::HandshakeSynAckFrame(f)) => format!("SYNACK ack={:08x} nonce={:08x}", f.nonce_ack, f.nonce),
        Some(uv::Frame::HandshakeAckFrame(f)) => format!("HSACK ack={:08x}", f.nonce_ack),
        Some(uv::Frame::HandshakeErrorFrame(f)) => format!("HSERR ack={:08x} {:?}", f.nonce_ack, f.error),
        Some(uv::Frame::DisconnectFrame(_)) => "DISC".into(),
        Some(uv::Frame::DisconnectAckFrame(_)) => "DISCACK".into(),
        None => format!("INVALID({}B)", bytes.len()),
        // a changed tree may know frame types this simulator does not: it must still build
        #[allow(unreachable_patterns)]
        Some(_) => format!("FRAME-TYPE-{}({}B)", bytes.first().copied().unwrap_or(0), bytes.len()),
    }
}

fn fate_str(f: &Fate) -> String {
    if f.copies.is_empty() {
        return "DROP".into();
    }
    f.copies.iter().map(|c| format!("+{}us{}{}", c.delay_us, if c.flips.is_empty() { String::new() } else { format!(" flip{:?}", c.flips) }, c.trunc.map_or(String::new(), |t| format!(" trunc{}", t)))).collect::<Vec<_>>().join(",")
}

impl Oracle for Tracer {
    fn on(&mut self, rec: &Rec, _cx: &Cx) -> Option<Violation> {
        match rec {
            Rec::Call { call, t_ns, local_ms, ep, op, skipped, .. } => {
                if self.verbose || !matches!(op, Op::Step { .. } | Op::StepEvery { .. }) {
                    let mut j = op_to_json(op);
                    if let Some(m) = j.as_object_mut() {
                        if let Some(h) = m.get("hex").and_then(|h| h.as_str()).map(|s| s.to_string()) {
                            if let Ok(b) = (0..h.len() / 2).map(|i| u8::from_str_radix(&h[2 * i..2 * i + 2], 16)).collect::<Result<Vec<u8>, _>>() {
                                m.insert("hex".into(), serde_json::json!(frame_summary(&b)));
                            }
                        }
                    }
                    println!("{:>12.6} #{} ep{:?} local={}ms {}{}", *t_ns as f64 / 1e9, call, ep, local_ms, j, if *skipped { " SKIPPED" } else { "" });
                }
            }
            Rec::Wire(w) => println!("{:>12.6}   #{} wire {}->{:?} ord{} {}B {} => {}", w.t_ns as f64 / 1e9, w.call, w.src, w.dst, w.ord, w.bytes.len(), frame_summary(&w.bytes), fate_str(&w.fate)),
            Rec::Delivered { t_ns, dst, src, bytes, accepted, injected, .. } => {
                if self.verbose {
                    println!("{:>12.6}   arrive {:?}->{} {}{}{}", *t_ns as f64 / 1e9, src, dst, frame_summary(bytes), if *accepted { "" } else { " (not accepted)" }, if *injected { " INJECTED" } else { "" });
                }
            }
            Rec::Event { t_ns, call, ep, peer, ev, .. } => {
                let e = match ev {
                    AppEvent::Receive(p) => format!("Receive {:?} len={}", parse_payload(p).map(|(e, c, m, t, _)| format!("ep{} ch{} {} tag{}", e, c, mode_name(m), t)), p.len()),
                    other => format!("{:?}", other),
                };
                println!("{:>12.6}   #{} EVENT ep{} peer{:?} {}", *t_ns as f64 / 1e9, call, ep, peer, e);
            }
            Rec::Trace { call, ep, hc, ev } => {
                if self.verbose || !matches!(ev, uv::trace::Event::PacketEmitted { .. } | uv::trace::Event::FrameAcked { .. } | uv::trace::Event::AckGroupAccepted { .. }) {
                    println!("               #{} trace ep{} hc{} {:?}", call, ep, hc, ev);
                }
            }
            Rec::Probe { call, ep, probe, heap_live, .. } => {
                if self.verbose {
                    match probe {
                        Probe::Hc(h) => println!("               #{} probe ep{} X={} rtt={:?} flush_alloc={} sendq={} pend={} resend={} txbuf={} fwin={}..{} pwin={}..{} rxbase={} heap={}", call, ep, h.send_rate, h.rtt_ms, h.flush_alloc, h.send_queue_len, h.pending_queue_len, h.resend_queue_len, h.tx_total_size, h.tx_frame_window_base_id, h.tx_frame_next_id, h.tx_packet_base_id, h.tx_packet_next_id, h.rx_packet_base_id, heap_live),
                        Probe::Client(c) => println!("               #{} probe ep{} client state={} X={:?}", call, ep, c.state, c.hc.as_ref().map(|h| h.send_rate)),
                        Probe::Server(s) => println!("               #{} probe ep{} server clients={} active={} timers={} states={:?}", call, ep, s.clients_len, s.active_clients_len, s.timer_queue_len, s.clients.iter().map(|c| c.state).collect::<Vec<_>>()),
                        Probe::Rate(_) | Probe::None => (),
                    }
                }
            }
            Rec::CallEnd { call, panic: Some(p), .. } => println!("               #{} PANIC {}:{} {}", call, p.file, p.line, p.message),
            Rec::End { t_ns } => println!("{:>12.6} END", *t_ns as f64 / 1e9),
            _ => (),
        }
        None
    }
}
