//! Oracles over what is on the wire: transmission behaviour per send mode (C12), the sender's
//! respect of the peer's advertised limits and the receiver's memory bound (C06), and the wire
//! rate against the negotiated ceiling (C13).

use crate::plan::*;
use crate::world::*;
use std::collections::{BTreeMap, VecDeque};
use uflow::verif as uv;
use uflow::verif::trace::Event as T;
use uflow::verif::Serialize;

fn viol(property: &str, clause: &str, detail: String, at_call: u64) -> Option<Violation> {
    Some(Violation { property: property.to_string(), clause: clause.to_string(), detail, at_call })
}

/// Maps half connection ids to (endpoint, peer endpoint).
#[derive(Default)]
pub struct ConnIndex {
    owner: BTreeMap<u64, (usize, Option<usize>)>,
}

impl ConnIndex {
    pub fn observe(&mut self, rec: &Rec, cx: &Cx) {
        match rec {
            Rec::Trace { ep, hc, ev: T::HcCreated { .. }, .. } => {
                self.owner.entry(*hc).or_insert((*ep, crate::oracle_transport::peer_of(cx.plan, *ep)));
            }
            Rec::Probe { ep, probe: Probe::Server(s), .. } => {
                for c in s.clients.iter() {
                    if let (Some(h), Some(peer)) = (&c.hc, cx.ep_of(&c.address)) {
                        self.owner.insert(h.verif_id, (*ep, Some(peer)));
                    }
                }
            }
            _ => (),
        }
    }

    pub fn peer(&self, hc: u64, ep: usize, cx: &Cx) -> Option<usize> {
        match self.owner.get(&hc) {
            Some((_, Some(p))) => Some(*p),
            _ => crate::oracle_transport::peer_of(cx.plan, ep),
        }
    }
}

// ------------------------------------------------------------------------------------------ C12

struct PktInfo {
    mode: u8,
    submit_call: u64,
}

/// Call index of the first step() of `ep` after call `after`, if there has been one.
fn step_after(steps: &BTreeMap<usize, Vec<u64>>, ep: usize, after: u64) -> Option<u64> {
    let v = steps.get(&ep)?;
    let i = v.partition_point(|c| *c <= after);
    v.get(i).cloned()
}

#[derive(Default)]
struct ModeConn {
    /// accepted submissions not yet numbered: (mode, submit call)
    queue: VecDeque<(u8, u64, usize)>,
    emitted: BTreeMap<u32, PktInfo>,
    /// frame id -> fragments it carried
    frames: BTreeMap<u32, Vec<(u32, u16)>>,
    emissions: BTreeMap<(u32, u16), (u32, u64)>,
    acked_at: BTreeMap<(u32, u16), u64>,
    passed_at: BTreeMap<u32, u64>,
    desync: bool,
    /// what the receiver has reported, computed from the ack frames the sender read (not from
    /// the sender's own bookkeeping): window base, and one past the newest packet id in use
    reported_base: Option<u32>,
    next_id: Option<u32>,
    /// (packet id, fragment id) pairs the receiver has read from its socket at least once
    rx_got: std::collections::BTreeSet<(u32, u16)>,
    /// last fragment id per packet id, from the wire
    frag_last: BTreeMap<u32, u16>,
}

pub struct ModeOracle {
    property: &'static str,
    conns: BTreeMap<(usize, usize), ModeConn>,
    index: ConnIndex,
    /// call indices of every step() per endpoint, ascending
    steps: BTreeMap<usize, Vec<u64>>,
    // reach
    fragments_seen: u64,
    resends_seen: u64,
    ts_emitted: u64,
    ts_deadline_checked: u64,
    acked_fragments: u64,
    emissions_after_ack_checked: u64,
    passed_packets: u64,
    marks_checked: u64,
    /// report only the clause about acknowledgement marks (used by C15)
    marks_only: bool,
    /// World A, per endpoint: acknowledgement groups in the ack frames read in the call in
    /// progress, and groups the sender examined in it (tap AckGroupSeen)
    groups_read: BTreeMap<usize, u64>,
    groups_examined: BTreeMap<usize, u64>,
    group_checks: u64,
}

impl ModeOracle {
    pub fn marks_only(property: &'static str) -> Self {
        let mut o = Self::new(property);
        o.marks_only = true;
        o
    }

    pub fn new(property: &'static str) -> Self {
        Self { property, conns: BTreeMap::new(), index: ConnIndex::default(), steps: BTreeMap::new(), fragments_seen: 0, resends_seen: 0, ts_emitted: 0, ts_deadline_checked: 0, acked_fragments: 0, emissions_after_ack_checked: 0, passed_packets: 0, marks_checked: 0, marks_only: false, groups_read: BTreeMap::new(), groups_examined: BTreeMap::new(), group_checks: 0 }
    }
}

impl Oracle for ModeOracle {
    fn on(&mut self, rec: &Rec, cx: &Cx) -> Option<Violation> {
        // every acknowledgement group of an ack frame that a half connection reads is examined
        // on its own (World A, where the harness hands every frame to the half connection)
        if !self.marks_only {
            match rec {
                Rec::Trace { ep, ev: T::AckGroupSeen { .. }, .. } if matches!(cx.plan.endpoints[*ep].kind, EndpointKind::Hc { .. }) => {
                    *self.groups_examined.entry(*ep).or_insert(0) += 1;
                }
                Rec::Consumed { ep, bytes, .. } if bytes.first() == Some(&FRAME_ACK) && matches!(cx.plan.endpoints[*ep].kind, EndpointKind::Hc { .. }) => {
                    if let Some(uv::Frame::AckFrame(f)) = uv::Frame::read(bytes) {
                        *self.groups_read.entry(*ep).or_insert(0) += f.frame_acks.len() as u64;
                    }
                }
                Rec::CallEnd { call, ep: Some(ep), panic } => {
                    let read = self.groups_read.remove(ep).unwrap_or(0);
                    let examined = self.groups_examined.remove(ep).unwrap_or(0);
                    if panic.is_none() && read > 0 {
                        self.group_checks += 1;
                        if examined != read {
                            return viol(self.property, "ack_group_not_examined", format!("endpoint {}: the ack frames read in this call carry {} acknowledgement groups, but only {} were examined: whether a group counts must not depend on the other groups of its frame", ep, read, examined), *call);
                        }
                    }
                }
                _ => (),
            }
        }
        let v = self.on_all(rec, cx);
        match v {
            Some(v) if self.marks_only && v.clause != "marked_acknowledged_without_ack" => None,
            other => other,
        }
    }

    fn reach(&self, out: &mut BTreeMap<String, u64>) {
        self.reach_all(out)
    }

    fn nontrivial(&self) -> bool {
        self.marks_only || self.fragments_seen >= 10
    }
}

impl ModeOracle {
    fn on_all(&mut self, rec: &Rec, cx: &Cx) -> Option<Violation> {
        let prop = self.property;
        self.index.observe(rec, cx);
        match rec {
            Rec::Call { op: Op::Create { ep }, skipped: false, .. } => {
                let ep = *ep;
                self.conns.retain(|(a, b), _| *a != ep && *b != ep);
            }
            Rec::Submit { call, ep, to, mode, payload, accepted: true, .. } => {
                let dst = to.or_else(|| crate::oracle_transport::peer_of(cx.plan, *ep))?;
                self.conns.entry((*ep, dst)).or_default().queue.push_back((*mode, *call, payload.len()));
            }
            Rec::Call { call, ep: Some(ep), op: Op::Step { .. }, skipped: false, .. } => {
                self.steps.entry(*ep).or_default().push(*call);
            }
            Rec::Trace { call, ep, hc, ev } => {
                let Some(peer) = self.index.peer(*hc, *ep, cx) else { return None };
                let c = self.conns.entry((*ep, peer)).or_default();
                match ev {
                    T::TsDropped { len } => match c.queue.pop_front() {
                        Some((MODE_TIME_SENSITIVE, _, l)) if l == *len => (),
                        _ => c.desync = true,
                    },
                    T::PacketEmitted { sequence_id, len, .. } => match c.queue.pop_front() {
                        Some((mode, submit_call, l)) if l == *len => {
                            c.emitted.insert(*sequence_id, PktInfo { mode, submit_call });
                            if c.reported_base.is_none() {
                                c.reported_base = Some(*sequence_id);
                            }
                            c.next_id = Some((*sequence_id + 1) & 0xFFFFF);
                        }
                        _ => c.desync = true,
                    },
                    T::FrameAcked { frame_id } => {
                        if let Some(frags) = c.frames.get(frame_id) {
                            for f in frags.iter() {
                                c.acked_at.entry(*f).or_insert(*call);
                                self.acked_fragments += 1;
                            }
                        }
                    }
                    T::AckGroupAccepted { base_id, bitfield } => {
                        // an accepted group is an acknowledgement, processed now, of every frame
                        // whose bit it sets - whatever the sender then does with it
                        for i in 0..32u32 {
                            if bitfield & (1 << i) != 0 {
                                if let Some(frags) = c.frames.get(&base_id.wrapping_add(i)) {
                                    for f in frags.iter() {
                                        c.acked_at.entry(*f).or_insert(*call);
                                    }
                                }
                            }
                        }
                    }
                    T::FragmentAcked { sequence_id, fragment_id } => {
                        // the sender stops retransmitting this fragment from now on: that is only
                        // right if an accepted acknowledgement covers a frame which carried it
                        self.marks_checked += 1;
                        if c.emitted.contains_key(sequence_id) && !c.acked_at.contains_key(&(*sequence_id, *fragment_id)) {
                            let mode = c.emitted.get(sequence_id).map(|i| i.mode).unwrap_or(0);
                            return viol(prop, "marked_acknowledged_without_ack", format!("endpoint {}: fragment {} of {} packet id {} was marked acknowledged (and will not be retransmitted again) although no acknowledged frame carried it", ep, fragment_id, mode_name(mode), sequence_id), *call);
                        }
                    }
                    _ => (),
                }
                if c.desync {
                    return viol(prop, "mode_model_desync", format!("endpoint {}: trace events do not match the send queue model", ep), *call);
                }
            }
            Rec::Consumed { call, ep, src: Some(src), bytes, .. } => {
                // "the receiver has reported moving past the packet": an ack frame read by the
                // sender whose packet window base lies beyond the packet, within what was sent
                if bytes.first() == Some(&FRAME_DATA) && !matches!(cx.plan.endpoints[*src].kind, EndpointKind::Raw) {
                    // the receiver (ep) has read a data frame of the sender (src)
                    if let (Some(uv::Frame::DataFrame(f)), Some(c)) = (uv::Frame::read(bytes), self.conns.get_mut(&(*src, *ep))) {
                        for d in f.datagrams.iter() {
                            c.rx_got.insert((d.sequence_id, d.fragment_id));
                        }
                    }
                    return None;
                }
                if bytes.first() != Some(&FRAME_ACK) || matches!(cx.plan.endpoints[*src].kind, EndpointKind::Raw) {
                    return None;
                }
                let Some(uv::Frame::AckFrame(f)) = uv::Frame::read(bytes) else { return None };
                let Some(c) = self.conns.get_mut(&(*ep, *src)) else { return None };
                let (Some(base), Some(next)) = (c.reported_base, c.next_id) else { return None };
                let b = f.packet_window_base_id;
                if b > 0xFFFFF {
                    return None;
                }
                let delta = b.wrapping_sub(base) & 0xFFFFF;
                let span = next.wrapping_sub(base) & 0xFFFFF;
                if delta == 0 || delta > span {
                    return None;
                }
                let mut id = base;
                let mut abandoned = None;
                while id != b {
                    c.passed_at.entry(id).or_insert(*call);
                    // a Reliable packet is retransmitted until acknowledged: the receiver cannot
                    // have moved past one it never read in full (after this report the sender
                    // gives the packet up)
                    if let (Some(info), Some(last)) = (c.emitted.get(&id), c.frag_last.get(&id)) {
                        if info.mode == MODE_RELIABLE && abandoned.is_none() {
                            if let Some(missing) = (0..=*last).find(|f| !c.rx_got.contains(&(id, *f))) {
                                abandoned = Some((id, missing, *last));
                            }
                        }
                    }
                    id = (id + 1) & 0xFFFFF;
                    self.passed_packets += 1;
                }
                c.reported_base = Some(b);
                // bounded memory: forget what lies far behind the window
                if c.rx_got.len() > 200_000 {
                    c.rx_got.clear();
                    c.frag_last.clear();
                }
                if let Some((id, missing, last)) = abandoned {
                    return viol(prop, "reliable_packet_passed_unreceived", format!("endpoint {}: its peer reports having moved past Reliable packet id {} although it never read fragment {}/{} of it; the sender stops retransmitting it from here on", ep, id, missing, last), *call);
                }
            }
            Rec::Wire(w) => {
                let Some(dst) = w.dst else { return None };
                if matches!(cx.plan.endpoints[w.src].kind, EndpointKind::Raw) || w.bytes.first() != Some(&FRAME_DATA) {
                    return None;
                }
                let Some(uv::Frame::DataFrame(f)) = uv::Frame::read(&w.bytes) else { return None };
                let c = self.conns.entry((w.src, dst)).or_default();
                let mut list = Vec::new();
                for d in f.datagrams.iter() {
                    let key = (d.sequence_id, d.fragment_id);
                    c.frag_last.insert(d.sequence_id, d.fragment_id_last);
                    list.push(key);
                    self.fragments_seen += 1;
                    let e = c.emissions.entry(key).or_insert((0, w.call));
                    e.0 += 1;
                    if e.0 > 1 {
                        self.resends_seen += 1;
                    }
                    let Some(info) = c.emitted.get(&d.sequence_id) else {
                        return viol(prop, "unknown_packet_on_wire", format!("endpoint {} emitted fragment {}/{} of packet id {} that was never taken from its send queue", w.src, d.fragment_id, d.fragment_id_last, d.sequence_id), w.call);
                    };
                    if info.mode <= MODE_UNRELIABLE && e.0 > 1 {
                        return viol(prop, "unreliable_fragment_resent", format!("endpoint {}: fragment {}/{} of {} packet id {} transmitted {} times (first in call {})", w.src, d.fragment_id, d.fragment_id_last, mode_name(info.mode), d.sequence_id, e.0, e.1), w.call);
                    }
                    if info.mode == MODE_TIME_SENSITIVE {
                        self.ts_emitted += 1;
                        if let Some(deadline) = step_after(&self.steps, w.src, info.submit_call) {
                            self.ts_deadline_checked += 1;
                            // transmission must have begun by the first step() after send()
                            let first = c.emissions.iter().filter(|((s, _), _)| *s == d.sequence_id).map(|(_, v)| v.1).min().unwrap_or(w.call);
                            if first > deadline {
                                return viol(prop, "timesensitive_sent_late", format!("endpoint {}: TimeSensitive packet id {} (send() in call {}) first transmitted in call {}, after the step() of call {}", w.src, d.sequence_id, info.submit_call, first, deadline), w.call);
                            }
                        }
                    }
                    if let Some(ack_call) = c.acked_at.get(&key) {
                        self.emissions_after_ack_checked += 1;
                        if w.call > *ack_call {
                            return viol(prop, "resent_after_ack", format!("endpoint {}: fragment {}/{} of packet id {} transmitted in call {} although its acknowledgement was processed in call {}", w.src, d.fragment_id, d.fragment_id_last, d.sequence_id, w.call, ack_call), w.call);
                        }
                    }
                    if let Some(pass_call) = c.passed_at.get(&d.sequence_id) {
                        if w.call > *pass_call {
                            return viol(prop, "resent_after_window_passed", format!("endpoint {}: fragment {}/{} of packet id {} transmitted in call {} although the receiver reported moving past the packet in call {}", w.src, d.fragment_id, d.fragment_id_last, d.sequence_id, w.call, pass_call), w.call);
                        }
                    }
                }
                c.frames.insert(f.sequence_id, list);
                if c.frames.len() > 20_000 {
                    let k = *c.frames.keys().next().unwrap();
                    c.frames.remove(&k);
                }
            }
            _ => (),
        }
        None
    }

    fn reach_all(&self, out: &mut BTreeMap<String, u64>) {
        let mut a = |k: &str, v: u64| *out.entry(k.to_string()).or_insert(0) += v;
        a("fragments_on_wire_checked", self.fragments_seen);
        a("fragment_retransmissions_seen", self.resends_seen);
        a("timesensitive_fragments_emitted", self.ts_emitted);
        a("timesensitive_deadline_checks", self.ts_deadline_checked);
        a("fragments_acknowledged", self.acked_fragments);
        a("emissions_checked_against_processed_ack", self.emissions_after_ack_checked);
        a("packets_passed_by_window", self.passed_packets);
        a("fragment_acknowledgement_marks_checked", self.marks_checked);
    }
}

// ------------------------------------------------------------------------------------------ C06

pub fn alloc_size(len: u64) -> u64 {
    if len > uflow::MAX_FRAGMENT_SIZE as u64 {
        ceil_fragment(len)
    } else {
        len
    }
}

#[derive(Default)]
struct LimitConn {
    /// packets taken from the send queue and not yet below the accepted window base
    outstanding: BTreeMap<u32, u64>,
    bytes: u64,
}

/// Sender half of C06 (and the always-on "no packet is discarded for lack of receive memory"
/// clause between two genuine endpoints).
pub struct SenderLimitOracle {
    property: &'static str,
    conns: BTreeMap<(usize, usize), LimitConn>,
    index: ConnIndex,
    /// advertised limit of the peer, per (ep, peer): (alloc limit, packet window)
    limits: BTreeMap<(usize, usize), (u64, u32)>,
    max_outstanding_packets: u64,
    max_outstanding_fill_permille: u64,
    checks: u64,
    alloc_limited_runs: bool,
    /// server-side half connections whose peer is not known yet: (server, hc) -> limit in use
    unattributed: BTreeMap<(usize, u64), u64>,
}

impl SenderLimitOracle {
    pub fn new(property: &'static str) -> Self {
        Self { property, conns: BTreeMap::new(), index: ConnIndex::default(), limits: BTreeMap::new(), max_outstanding_packets: 0, max_outstanding_fill_permille: 0, checks: 0, alloc_limited_runs: false, unattributed: BTreeMap::new() }
    }
}

impl Oracle for SenderLimitOracle {
    fn on(&mut self, rec: &Rec, cx: &Cx) -> Option<Violation> {
        let prop = self.property;
        self.index.observe(rec, cx);
        // a server learns whom a new half connection belongs to from its next probe: the limit it
        // uses towards that client has to be the one the client's configuration advertises
        if let Rec::Probe { call, ep, probe: Probe::Server(sv), .. } = rec {
            if !self.unattributed.is_empty() {
                for c in sv.clients.iter() {
                    if let (Some(h), Some(peer)) = (&c.hc, cx.ep_of(&c.address)) {
                        if let Some(limit) = self.unattributed.remove(&(*ep, h.verif_id)) {
                            if let EndpointKind::Client { cfg, .. } = &cx.plan.endpoints[peer].kind {
                                let pl = cfg.max_receive_alloc.min(u32::MAX as u64);
                                if pl != limit {
                                    return viol(prop, "advertised_limit_mismatch", format!("server {} uses a transmit allocation limit of {} towards client {}, whose configuration advertises {}", ep, limit, peer, pl), *call);
                                }
                            }
                        }
                    }
                }
                self.unattributed.retain(|(e, _), _| e != ep);
            }
        }
        match rec {
            Rec::Call { op: Op::Create { ep }, skipped: false, .. } => {
                let ep = *ep;
                self.conns.retain(|(a, b), _| *a != ep && *b != ep);
            }
            Rec::Trace { call, ep, hc, ev } => {
                if let (T::HcCreated { tx_alloc_limit, .. }, EndpointKind::Server { .. }) = (ev, &cx.plan.endpoints[*ep].kind) {
                    self.unattributed.insert((*ep, *hc), *tx_alloc_limit as u64);
                }
                let Some(peer) = self.index.peer(*hc, *ep, cx) else { return None };
                match ev {
                    T::HcCreated { tx_alloc_limit, tx_packet_window_size, .. } => {
                        // what the peer advertised is what the handshake (or the paired World A
                        // configuration) handed to this sender
                        self.limits.insert((*ep, peer), (*tx_alloc_limit as u64, *tx_packet_window_size));
                        // cross-check against the peer's own configuration where it is known
                        let peer_limit = match &cx.plan.endpoints[peer].kind {
                            EndpointKind::Hc { spec, .. } => Some(spec.rx_alloc_limit),
                            EndpointKind::Client { cfg, .. } | EndpointKind::Server { cfg, .. } => Some(cfg.max_receive_alloc.min(u32::MAX as u64)),
                            EndpointKind::Raw | EndpointKind::Rate { .. } => None,
                        };
                        if let Some(pl) = peer_limit {
                            if pl != *tx_alloc_limit as u64 {
                                return viol(prop, "advertised_limit_mismatch", format!("endpoint {} uses a transmit allocation limit of {} but its peer {} advertised {}", ep, tx_alloc_limit, peer, pl), *call);
                            }
                        }
                    }
                    T::PacketEmitted { sequence_id, len, .. } => {
                        let c = self.conns.entry((*ep, peer)).or_default();
                        let a = alloc_size(*len as u64);
                        c.outstanding.insert(*sequence_id, a);
                        c.bytes += a;
                        self.checks += 1;
                        let (limit, _window) = self.limits.get(&(*ep, peer)).cloned().unwrap_or((u64::MAX, 4096));
                        let bound = ceil_fragment(limit);
                        self.max_outstanding_packets = self.max_outstanding_packets.max(c.outstanding.len() as u64);
                        if bound > 0 && bound < u64::MAX / 2000 {
                            let fill = c.bytes * 1000 / bound.max(1);
                            self.max_outstanding_fill_permille = self.max_outstanding_fill_permille.max(fill);
                            if fill >= 900 {
                                self.alloc_limited_runs = true;
                            }
                        }
                        if c.bytes > bound {
                            return viol(prop, "sender_exceeds_peer_alloc", format!("endpoint {} has {} fragment-rounded bytes outstanding towards {} which advertised max_receive_alloc {} (rounded {})", ep, c.bytes, peer, limit, bound), *call);
                        }
                        if c.outstanding.len() as u64 > 4096 {
                            return viol(prop, "sender_exceeds_4096_packets", format!("endpoint {} has {} packets outstanding", ep, c.outstanding.len()), *call);
                        }
                    }
                    T::PacketBaseAdvanced { old, new } => {
                        let c = self.conns.entry((*ep, peer)).or_default();
                        let mut id = *old;
                        let mut n = 0;
                        while id != *new && n < 5000 {
                            if let Some(a) = c.outstanding.remove(&id) {
                                c.bytes -= a;
                            }
                            id = (id + 1) & 0xFFFFF;
                            n += 1;
                        }
                    }
                    T::RxOverAlloc { sequence_id, alloc_size } => {
                        // the receiving side of a genuine pair must never get here
                        if !matches!(cx.plan.endpoints[peer].kind, EndpointKind::Raw) && cx.plan.adversary.is_empty() && cx.plan.param("hostile", 0.0) == 0.0 {
                            return viol(prop, "packet_discarded_for_lack_of_receive_memory", format!("endpoint {} discarded packet id {} ({} bytes of allocation) sent by genuine endpoint {}", ep, sequence_id, alloc_size, peer), *call);
                        }
                    }
                    _ => (),
                }
            }
            _ => (),
        }
        None
    }

    fn reach(&self, out: &mut BTreeMap<String, u64>) {
        let mut a = |k: &str, v: u64| *out.entry(k.to_string()).or_insert(0) += v;
        a("sender_limit_checks", self.checks);
        a("runs_where_sender_filled_90_percent_of_peer_alloc", self.alloc_limited_runs as u64);
        let m = out.entry("max_outstanding_packets".to_string()).or_insert(0);
        *m = (*m).max(self.max_outstanding_packets);
        let m = out.entry("max_outstanding_fill_permille".to_string()).or_insert(0);
        *m = (*m).max(self.max_outstanding_fill_permille);
    }

    fn nontrivial(&self) -> bool {
        self.checks >= 10
    }
}

/// Receiver half of C06: measured heap bytes a victim connection holds under a hostile stream.
pub struct ReceiverMemoryOracle {
    property: &'static str,
    victim: usize,
    baseline: Option<i64>,
    limit: u64,
    max_held: i64,
    max_ack_queue: u64,
    checks: u64,
    counter_checks: u64,
    filled: bool,
}

impl ReceiverMemoryOracle {
    pub fn new(property: &'static str, victim: usize, plan: &Plan) -> Self {
        let limit = match &plan.endpoints[victim].kind {
            EndpointKind::Hc { spec, .. } => spec.rx_alloc_limit,
            EndpointKind::Client { cfg, .. } | EndpointKind::Server { cfg, .. } => cfg.max_receive_alloc,
            _ => 0,
        };
        Self { property, victim, baseline: None, limit, max_held: 0, max_ack_queue: 0, checks: 0, counter_checks: 0, filled: false }
    }
}

/// Constant budget for per-connection bookkeeping that is not packet data (fragment bitfields,
/// vector growth slack): 128 bytes per window slot.
pub const RX_BOOKKEEPING_PER_SLOT: i64 = 128;
/// ... plus a constant for structures that do not scale with the window (vector growth slack,
/// per-connection queues)
pub const RX_BOOKKEEPING_CONST: i64 = 4096;
pub const ACK_QUEUE_BOUND: u64 = 65_536;

impl Oracle for ReceiverMemoryOracle {
    fn on(&mut self, rec: &Rec, _cx: &Cx) -> Option<Violation> {
        let prop = self.property;
        if let Rec::Probe { call, ep, probe: Probe::Hc(h), heap_live, .. } = rec {
            if *ep != self.victim {
                return None;
            }
            if self.baseline.is_none() {
                self.baseline = Some(*heap_live);
                return None;
            }
            self.checks += 1;
            let bound = ceil_fragment(self.limit) as i64;
            // (ii) the connection's own counter
            self.counter_checks += 1;
            if h.rx_alloc as i64 > bound {
                return viol(prop, "rx_alloc_counter_exceeds_limit", format!("endpoint {}: receive allocation counter {} > limit {} (rounded {})", ep, h.rx_alloc, self.limit, bound), *call);
            }
            if h.rx_alloc as i64 * 10 >= bound * 9 {
                self.filled = true;
            }
            // (i) measured heap: everything the connection allocated beyond its fresh state,
            // minus the acknowledgement queue (bounded separately) and what the application has
            // queued for sending
            let ack_bytes = h.ack_queue_capacity as i64 * 12;
            let held = *heap_live - self.baseline.unwrap() - ack_bytes - h.tx_total_size as i64;
            self.max_held = self.max_held.max(held);
            // bitfields: one bit per claimed fragment, at most bound/1448 fragments in total
            let slack = RX_BOOKKEEPING_CONST + RX_BOOKKEEPING_PER_SLOT * (h.rx_packet_window_size.max(1) as i64) + bound / 64;
            if held > bound + slack {
                let d = format!("endpoint {}: holds {} heap bytes for received data (allocator measurement) with max_receive_alloc {} (rounded {}, bookkeeping budget {}); own counter says {}", ep, held, self.limit, bound, slack, h.rx_alloc);
                return viol(prop, "receiver_memory_exceeds_limit", d, *call);
            }
            // (iii) other receive state
            self.max_ack_queue = self.max_ack_queue.max(h.ack_queue_len as u64);
            if h.ack_queue_len as u64 > ACK_QUEUE_BOUND {
                return viol(prop, "ack_queue_unbounded", format!("endpoint {}: {} acknowledgement groups queued (bound {})", ep, h.ack_queue_len, ACK_QUEUE_BOUND), *call);
            }
        }
        None
    }

    fn reach(&self, out: &mut BTreeMap<String, u64>) {
        let mut a = |k: &str, v: u64| *out.entry(k.to_string()).or_insert(0) += v;
        a("receiver_memory_checks", self.checks);
        a("runs_where_receive_alloc_reached_90_percent", self.filled as u64);
        let m = out.entry("max_held_bytes".to_string()).or_insert(0);
        *m = (*m).max(self.max_held.max(0) as u64);
        let m = out.entry("max_ack_queue_len".to_string()).or_insert(0);
        *m = (*m).max(self.max_ack_queue);
    }

    fn nontrivial(&self) -> bool {
        self.checks >= 10
    }
}

// ------------------------------------------------------------------------------------------ C13

#[derive(Default)]
struct RateConn {
    /// (local ns, bytes, rtt estimate in ns held around the emission, call index)
    frames: Vec<(u64, u64, u64, u64)>,
    ceiling: u64,
    prefix: Vec<u64>,
    rtt_ns: u64,
    /// estimates held after each of the last three step() calls of the sender (the bucket's cap at a
    /// window's start was computed from the estimate held before the latest feedback)
    rtt_recent: [u64; 3],
    max_rtt_ns: u64,
    /// running minimum of prefix[i-1] - C * t_i
    run_min: f64,
}

pub struct RateOracle {
    property: &'static str,
    conns: BTreeMap<(usize, usize), RateConn>,
    index: ConnIndex,
    /// per endpoint: (call index, local ns, gap to the previous step in ns) of every step()
    steps: BTreeMap<usize, Vec<(u64, u64, u64)>>,
    max_gap_ns: BTreeMap<usize, u64>,
    /// endpoints whose call in progress is a step()
    in_step: std::collections::BTreeSet<usize>,
    /// first violation of the stated bound that stays inside the late-refill envelope (known
    /// finding); reported at the end of the run unless something worse turns up
    soft: Option<Violation>,
    frames_checked: u64,
    windows_checked: u64,
    max_fill_permille: u64,
    rate_limited_runs: bool,
    x_checks: u64,
    soft_hits: u64,
}

impl RateOracle {
    pub fn new(property: &'static str) -> Self {
        Self { property, conns: BTreeMap::new(), index: ConnIndex::default(), steps: BTreeMap::new(), max_gap_ns: BTreeMap::new(), in_step: Default::default(), soft: None, frames_checked: 0, windows_checked: 0, max_fill_permille: 0, rate_limited_runs: false, x_checks: 0, soft_hits: 0 }
    }

    fn ceiling(cx: &Cx, ep: usize, peer: usize) -> Option<u64> {
        match (&cx.plan.endpoints[ep].kind, &cx.plan.endpoints[peer].kind) {
            (EndpointKind::Hc { spec, .. }, _) => Some(spec.tx_bandwidth_limit as u64),
            (EndpointKind::Client { cfg, .. }, EndpointKind::Server { cfg: pc, .. }) | (EndpointKind::Server { cfg, .. }, EndpointKind::Client { cfg: pc, .. }) => {
                Some((cfg.max_send_rate.min(u32::MAX as u64)).min(pc.max_receive_rate.min(u32::MAX as u64)))
            }
            _ => None,
        }
    }

    /// Gap (ns) credited by the first step() of `ep` whose call index lies in [from_call, to_call].
    fn first_step_gap(&self, ep: usize, from_call: u64, to_call: u64) -> u64 {
        let Some(v) = self.steps.get(&ep) else { return 0 };
        let i = v.partition_point(|s| s.0 < from_call);
        match v.get(i) {
            Some(s) if s.0 <= to_call => s.2,
            _ => 0,
        }
    }
}

impl Oracle for RateOracle {
    fn on(&mut self, rec: &Rec, cx: &Cx) -> Option<Violation> {
        let prop = self.property;
        self.index.observe(rec, cx);
        match rec {
            Rec::Call { op: Op::Create { ep }, skipped: false, .. } => {
                let ep = *ep;
                self.conns.retain(|(a, b), _| *a != ep && *b != ep);
                self.steps.remove(&ep);
            }
            Rec::Call { call, ep: Some(ep), local_ns, op: Op::Step { .. }, skipped: false, .. } => {
                let v = self.steps.entry(*ep).or_default();
                let gap = v.last().map_or(0, |p| local_ns.saturating_sub(p.1));
                v.push((*call, *local_ns, gap));
                let m = self.max_gap_ns.entry(*ep).or_insert(0);
                *m = (*m).max(gap);
                self.in_step.insert(*ep);
            }
            Rec::CallEnd { ep: Some(ep), .. } => {
                self.in_step.remove(ep);
            }
            Rec::Wire(w) => {
                let Some(dst) = w.dst else { return None };
                let ty = w.bytes.first().copied().unwrap_or(255);
                if !(ty == FRAME_DATA || ty == FRAME_SYNC || ty == FRAME_ACK) {
                    return None;
                }
                let Some(c_limit) = Self::ceiling(cx, w.src, dst) else { return None };
                let cf = c_limit as f64;
                let (j, before, len, t_j, rtt_now, max_rtt) = {
                    let c = self.conns.entry((w.src, dst)).or_default();
                    c.ceiling = c_limit;
                    let j = c.frames.len();
                    let len = w.bytes.len() as u64;
                    let before = c.prefix.last().cloned().unwrap_or(0);
                    c.prefix.push(before + len);
                    let held = c.rtt_ns.max(c.rtt_recent[0]).max(c.rtt_recent[1]).max(c.rtt_recent[2]);
                    c.frames.push((w.local_ns, len, held, w.call));
                    c.max_rtt_ns = c.max_rtt_ns.max(held);
                    (j, before, len, w.local_ns, c.rtt_ns, c.max_rtt_ns)
                };
                let _ = rtt_now;
                self.frames_checked += 1;
                // exact check of all windows of <= 256 frames ending here
                let mut sum = 0u64;
                let mut rmax = 0u64;
                let lo = j.saturating_sub(255);
                for i in (lo..=j).rev() {
                    let (t_i, l_i, r_i, call_i) = self.conns[&(w.src, dst)].frames[i];
                    sum += l_i;
                    rmax = rmax.max(r_i);
                    self.windows_checked += 1;
                    let allowed = cf * ((t_j - t_i) as f64 + rmax as f64) / 1e9 + 1472.0;
                    let fill = (sum as f64 * 1000.0 / allowed) as u64;
                    if fill > self.max_fill_permille {
                        self.max_fill_permille = fill;
                    }
                    // one byte of tolerance for the library's own rounding of credit
                    if sum as f64 > allowed + 1.0 {
                        let gap = self.first_step_gap(w.src, call_i, w.call);
                        let envelope = allowed + cf * gap as f64 / 1e9;
                        let inside = sum as f64 <= envelope + 1.0;
                        let d = format!(
                            "endpoint {} -> {}: {} bytes in {} frames within {:.3} ms (calls {}..{}), ceiling {} B/s, largest RTT estimate {:.3} ms: allowed {:.0} bytes; late_refill_envelope={} (first step() inside the window credits {:.3} ms)",
                            w.src, dst, sum, j - i + 1, (t_j - t_i) as f64 / 1e6, call_i, w.call, c_limit, rmax as f64 / 1e6, allowed, if inside { "yes" } else { "no" }, gap as f64 / 1e6);
                        let v = viol(prop, "wire_rate_exceeds_ceiling", d, w.call);
                        if inside {
                            self.soft_hits += 1;
                            if self.soft.is_none() {
                                self.soft = v;
                            }
                        } else {
                            return v;
                        }
                    }
                }
                // all longer windows: running minimum with the run-wide maximum RTT estimate
                let gmax = self.max_gap_ns.get(&w.src).cloned().unwrap_or(0);
                let c = self.conns.get_mut(&(w.src, dst)).unwrap();
                let g_i = before as f64 - cf * t_j as f64 / 1e9;
                if j == 0 || g_i < c.run_min {
                    c.run_min = g_i;
                }
                let lhs = (before + len) as f64 - cf * t_j as f64 / 1e9 - c.run_min;
                let allowed = cf * max_rtt as f64 / 1e9 + 1472.0;
                if lhs > allowed + 1.0 {
                    let inside = lhs <= allowed + cf * gmax as f64 / 1e9 + 1.0;
                    let d = format!("endpoint {} -> {}: some window ending at call {} carries {:.0} bytes more than ceiling x duration, allowed excess {:.0} (ceiling {} B/s, largest RTT estimate {:.3} ms); late_refill_envelope={} (largest step gap {:.3} ms)", w.src, dst, w.call, lhs, allowed, c_limit, max_rtt as f64 / 1e6, if inside { "yes" } else { "no" }, gmax as f64 / 1e6);
                    let v = viol(prop, "wire_rate_exceeds_ceiling", d, w.call);
                    if inside {
                        self.soft_hits += 1;
                        if self.soft.is_none() {
                            self.soft = v;
                        }
                    } else {
                        return v;
                    }
                }
            }
            Rec::Probe { call, ep, probe, .. } => {
                let mut hs: Vec<(usize, &uv::HcProbe)> = Vec::new();
                match probe {
                    Probe::Hc(h) => {
                        if let Some(p) = crate::oracle_transport::peer_of(cx.plan, *ep) {
                            hs.push((p, h));
                        }
                    }
                    Probe::Client(c) => {
                        if let (Some(h), Some(p)) = (&c.hc, crate::oracle_transport::peer_of(cx.plan, *ep)) {
                            hs.push((p, h));
                        }
                    }
                    Probe::Server(s) => {
                        for c in s.clients.iter() {
                            if let (Some(h), Some(p)) = (&c.hc, cx.ep_of(&c.address)) {
                                hs.push((p, h));
                            }
                        }
                    }
                    Probe::Rate(_) | Probe::None => (),
                }
                for (peer, h) in hs {
                    let rtt_ns = h.rtt_s.map_or(0, |s| (s * 1e9) as u64);
                    let c = self.conns.entry((*ep, peer)).or_default();
                    // the estimate "held between emissions": keep the larger of before/after
                    c.rtt_ns = rtt_ns;
                    // the cap is recomputed by step() only: remember the estimates held after the
                    // last three steps (calls in between - send, flush - do not refill)
                    if self.in_step.contains(ep) {
                        c.rtt_recent = [c.rtt_recent[1], c.rtt_recent[2], rtt_ns];
                    }
                    if let Some(last) = c.frames.last_mut() {
                        if last.2 < rtt_ns {
                            last.2 = rtt_ns;
                        }
                    }
                    if h.flush_alloc < 0 {
                        self.rate_limited_runs = true;
                    }
                    if let Some(limit) = Self::ceiling(cx, *ep, peer) {
                        self.x_checks += 1;
                        if h.send_rate as u64 > limit {
                            return viol(prop, "allowed_rate_exceeds_ceiling", format!("endpoint {}: allowed send rate {} B/s above the negotiated ceiling {} B/s", ep, h.send_rate, limit), *call);
                        }
                    }
                }
            }
            Rec::End { .. } => {
                return self.soft.take();
            }
            _ => (),
        }
        None
    }

    fn reach(&self, out: &mut BTreeMap<String, u64>) {
        let mut a = |k: &str, v: u64| *out.entry(k.to_string()).or_insert(0) += v;
        a("frames_rate_checked", self.frames_checked);
        a("windows_checked_exactly", self.windows_checked);
        a("allowed_rate_vs_ceiling_checks", self.x_checks);
        a("runs_where_sender_ran_out_of_credit", self.rate_limited_runs as u64);
        a("windows_over_stated_bound_but_inside_late_refill_envelope", self.soft_hits);
        let m = out.entry("max_window_fill_permille_of_bound".to_string()).or_insert(0);
        *m = (*m).max(self.max_fill_permille);
    }

    fn nontrivial(&self) -> bool {
        self.frames_checked >= 20
    }
}
