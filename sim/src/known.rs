//! Known findings: genuine defects of uflow that are recorded rather than repaired. The file is
//! committed, never written at run time. An entry names the property, the oracle clause and the
//! identity of the failure (substrings that the violation detail must contain, optionally the
//! scenario family). Entries with status "fixed" suppress nothing.

use crate::plan::Plan;
use crate::world::Violation;
use serde_json::Value;

#[derive(Clone, Debug)]
pub struct Known {
    pub id: String,
    pub property: String,
    pub clause: String,
    pub detail_contains: Vec<String>,
    pub scenario: Option<String>,
    pub status: String,
    pub summary: String,
}

pub fn load() -> Vec<Known> {
    let path = format!("{}/known_findings.json", crate::verif_root());
    let Ok(text) = std::fs::read_to_string(&path) else { return Vec::new() };
    let Ok(v) = serde_json::from_str::<Value>(&text) else {
        eprintln!("warning: {} is not valid JSON; ignored", path);
        return Vec::new();
    };
    let mut out = Vec::new();
    for f in v.get("findings").and_then(|x| x.as_array()).cloned().unwrap_or_default() {
        let s = |k: &str| f.get(k).and_then(|x| x.as_str()).unwrap_or("").to_string();
        out.push(Known {
            id: s("id"),
            property: s("property"),
            clause: s("clause"),
            detail_contains: f.get("detail_contains").and_then(|x| x.as_array()).map(|a| a.iter().filter_map(|x| x.as_str()).map(|x| x.to_string()).collect()).unwrap_or_default(),
            scenario: f.get("scenario").and_then(|x| x.as_str()).map(|x| x.to_string()),
            status: s("status"),
            summary: s("summary"),
        });
    }
    out
}

/// Returns the finding's summary if the violation is a listed (unrepaired) known finding.
pub fn matches(list: &[Known], v: &Violation, plan: &Plan) -> Option<String> {
    for k in list.iter() {
        if k.status != "known" || k.property != v.property || k.clause != v.clause {
            continue;
        }
        if let Some(s) = &k.scenario {
            if *s != plan.scenario {
                continue;
            }
        }
        if k.detail_contains.iter().all(|needle| v.detail.contains(needle.as_str())) {
            return Some(format!("[{}] {}", k.id, k.summary));
        }
    }
    None
}
