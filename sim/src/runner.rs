//! Seeded search: many simulated runs on a pool of worker threads, evidence aggregation,
//! violation handling (re-run, materialise, minimise, verify the replay in a fresh process).

use crate::known;
use crate::minimize;
use crate::plan::*;
use crate::rng::key;
use crate::watchdog;
use crate::world::*;

use serde_json::{json, Value};
use std::collections::{BTreeMap, BTreeSet, HashSet};
use std::sync::atomic::{AtomicBool, AtomicU64, Ordering};
use std::sync::{Arc, Mutex};
use std::time::Instant;

pub type GenFn = fn(seed: u64, run: u64, thorough: bool) -> Plan;
pub type OracleFn = fn(plan: &Plan) -> Vec<Box<dyn Oracle>>;
pub type AdversaryFn = fn(plan: &Plan) -> Option<Box<dyn Adversary>>;
pub type CustomRunFn = fn(def: &CheckDef, fam: &Family, plan: &Plan, materialise: bool) -> Result<RunVerdict, String>;

#[derive(Clone)]
pub struct Family {
    pub name: &'static str,
    pub world: &'static str,
    /// relative share of runs
    pub weight: u32,
    pub gen: GenFn,
    pub oracles: OracleFn,
    pub adversary: Option<AdversaryFn>,
    /// The recorded adversary actions are only legal relative to this exact workload (packet
    /// numbering, timing): the minimiser must not remove application operations.
    /// Run indices this family takes out of the weighted rotation (families with weight 0 that
    /// were added later: the mapping of every other run index to its family stays what it was).
    pub claims: Option<fn(u64) -> bool>,
    pub keep_workload: bool,
    /// Replaces the standard single execution (twin-run comparisons).
    pub custom: Option<CustomRunFn>,
    /// one-line description for the evidence file
    pub what: &'static str,
}

pub struct CheckDef {
    pub property: &'static str,
    pub families: Vec<Family>,
    /// Which panics inside uflow count as a violation of *this* property (C03: all of them).
    pub panic_is_violation: fn(&PanicInfo) -> bool,
    /// Whether a call that never returns is this property's violation (C03, C11, C14) or only noted.
    pub hang_is_violation: bool,
    pub quick_runs: u64,
    pub thorough_runs: u64,
    pub rule: &'static str,
    pub real_code: &'static str,
    pub stubs: &'static str,
    pub assumptions: Vec<&'static str>,
}

impl CheckDef {
    pub fn family_of(&self, run: u64) -> &Family {
        // development aid: VERIF_ONLY_FAMILY=<name> sends every run to one family
        if let Ok(name) = std::env::var("VERIF_ONLY_FAMILY") {
            if let Some(f) = self.family_named(&name) {
                return f;
            }
        }
        for f in self.families.iter() {
            if f.claims.map_or(false, |c| c(run)) {
                return f;
            }
        }
        let total: u64 = self.families.iter().map(|f| f.weight as u64).sum();
        let mut x = run % total.max(1);
        for f in self.families.iter() {
            if x < f.weight as u64 {
                return f;
            }
            x -= f.weight as u64;
        }
        &self.families[0]
    }

    pub fn family_named(&self, name: &str) -> Option<&Family> {
        self.families.iter().find(|f| f.name == name)
    }
}

pub fn mk_adversary(f: &Family, plan: &Plan) -> Option<Box<dyn Adversary>> {
    if plan.fate_seed.is_none() {
        return None;
    }
    f.adversary.and_then(|a| a(plan))
}

#[derive(Default)]
struct Agg {
    evaluations: u64,
    nontrivial: u64,
    digests: HashSet<u64>,
    reach: BTreeMap<String, u64>,
    per_family: BTreeMap<String, u64>,
    samples: Vec<Value>,
    states: HashSet<u64>,
    sim_us: u64,
    found: Vec<(u64, Violation)>,
    known_hits: BTreeMap<String, u64>,
    harness_errors: Vec<String>,
    aborted: u64,
    aborted_first: Option<(u64, String)>,
}

pub struct RunVerdict {
    /// a panic inside uflow that is not this property's business (C03 decides those)
    pub aborted_by_panic: Option<String>,
    pub violation: Option<Violation>,
    pub digest: u64,
    pub stats: Stats,
    pub materialised: Option<Plan>,
    pub reach: BTreeMap<String, u64>,
    pub nontrivial: bool,
    pub states: Vec<u64>,
}

/// Executes one plan with the family's oracles; a panic inside uflow becomes a violation of the
/// running property (clause `panic`).
pub fn run_plan(def: &CheckDef, fam: &Family, plan: &Plan, materialise: bool) -> Result<RunVerdict, String> {
    if let Some(custom) = fam.custom {
        return custom(def, fam, plan, materialise);
    }
    run_plan_with(def, fam, plan, materialise, (fam.oracles)(plan))
}

/// Standard execution with an explicit oracle set.
pub fn run_plan_with(def: &CheckDef, fam: &Family, plan: &Plan, materialise: bool, oracles: Vec<Box<dyn Oracle>>) -> Result<RunVerdict, String> {
    let mut oracles = oracles;
    let adv = mk_adversary(fam, plan);
    let opts = ExecOpts { materialise, ..Default::default() };
    let out = execute(plan, &mut oracles, opts, adv)?;
    let mut violation = out.violation;
    let mut aborted: Option<String> = None;
    if violation.is_none() {
        if let Some((p, call, opname)) = &out.panic {
            if p.file.contains("/verif/sim/") {
                return Err(format!("harness panic at {}:{}: {}", p.file, p.line, p.message));
            }
            let detail = format!("panic in {}() at {}:{}: {}", opname, p.file.replace("/repo/", ""), p.line, p.message);
            if (def.panic_is_violation)(p) {
                // the call site is part of the identity: minimisation must keep the same panic
                let site = format!("panic@{}:{}", p.file.rsplit("/src/").next().unwrap_or(&p.file), p.line);
                violation = Some(Violation { property: def.property.to_string(), clause: site, detail, at_call: *call });
            } else {
                aborted = Some(detail);
            }
        }
    }
    let mut reach = BTreeMap::new();
    let mut nontrivial = true;
    let mut states = Vec::new();
    for o in oracles.iter() {
        o.reach(&mut reach);
        nontrivial &= o.nontrivial();
        o.states(&mut states);
    }
    out.stats.add_to(&mut reach);
    Ok(RunVerdict { aborted_by_panic: aborted, violation, digest: out.digest, stats: out.stats, materialised: out.materialised, reach, nontrivial, states })
}

fn abbreviate(plan: &Plan) -> Value {
    let mut ops: BTreeMap<&'static str, u64> = BTreeMap::new();
    for t in plan.timeline.iter() {
        *ops.entry(t.op.name()).or_insert(0) += 1;
    }
    let first: Vec<Value> = plan
        .timeline
        .iter()
        .filter(|t| !matches!(t.op, Op::Step { .. }))
        .take(6)
        .map(|t| {
            let mut v = op_to_json(&t.op);
            if let Some(m) = v.as_object_mut() {
                m.insert("t_us".into(), json!(t.t_us));
                if let Some(r) = m.get_mut("rule") {
                    // keep the interesting knobs only
                    let keep: Vec<(String, Value)> = r
                        .as_object()
                        .map(|o| o.iter().filter(|(_, v)| v.as_f64().map_or(v.as_bool() == Some(true), |x| x != 0.0)).map(|(k, v)| (k.clone(), v.clone())).collect())
                        .unwrap_or_default();
                    *r = Value::Object(keep.into_iter().collect());
                }
                if let Some(h) = m.get("hex").and_then(|h| h.as_str()) {
                    let short = if h.len() > 48 { format!("{}…({} bytes)", &h[..48], h.len() / 2) } else { h.to_string() };
                    m.insert("hex".into(), json!(short));
                }
            }
            v
        })
        .collect();
    json!({
        "scenario": plan.scenario, "run": plan.run, "end_us": plan.end_us,
        "endpoints": plan.endpoints.iter().map(|e| match &e.kind {
            EndpointKind::Hc { spec, .. } => json!({"hc": {"frame_window": spec.tx_frame_window_size, "packet_window": spec.tx_packet_window_size,
                "tx_frame_base": spec.tx_frame_base_id, "tx_packet_base": spec.tx_packet_base_id, "bandwidth": spec.tx_bandwidth_limit,
                "tx_alloc": spec.tx_alloc_limit}}),
            EndpointKind::Client { cfg, .. } => json!({"client": {"active_timeout_ms": cfg.active_timeout_ms, "max_send_rate": cfg.max_send_rate, "max_receive_alloc": cfg.max_receive_alloc}}),
            EndpointKind::Server { cfg, max_total, max_active, .. } => json!({"server": {"max_total": max_total, "max_active": max_active, "active_timeout_ms": cfg.active_timeout_ms}}),
            EndpointKind::Raw => json!("raw"),
            EndpointKind::Rate { max_send_rate } => json!({"rate_computer": {"max_send_rate": max_send_rate}}),
        }).collect::<Vec<_>>(),
        "op_counts": ops, "first_ops": first, "params": plan.params,
    })
}

pub struct CheckResult {
    pub exit_code: i32,
}

fn replay_dir(property: &str) -> String {
    format!("{}/replays/{}", crate::verif_root(), property)
}

/// Runs the check: search, evidence, verdict. Prints VIOLATION / KNOWN-FINDING lines.
pub fn run_check(def: &CheckDef, thorough: bool, seed: u64) -> CheckResult {
    let start = Instant::now();
    let budget_runs = std::env::var("VERIF_RUNS").ok().and_then(|s| s.parse::<u64>().ok()).unwrap_or(if thorough { def.thorough_runs } else { def.quick_runs });
    let wall_cap_s = std::env::var("VERIF_BUDGET_S").ok().and_then(|s| s.parse::<u64>().ok()).unwrap_or(if thorough { 1500 } else { 150 });
    let workers = std::env::var("VERIF_WORKERS").ok().and_then(|s| s.parse::<usize>().ok()).unwrap_or(16).clamp(1, watchdog::MAX_WORKERS - 1);
    let known_list = known::load();

    println!("check {} tier={} seed={} runs={} workers={}", def.property, if thorough { "thorough" } else { "quick" }, seed, budget_runs, workers);

    let counter = Arc::new(AtomicU64::new(0));
    let stop = Arc::new(AtomicBool::new(false));
    let agg = Arc::new(Mutex::new(Agg::default()));
    let done_workers = Arc::new(AtomicU64::new(0));
    let min_violation_run = Arc::new(AtomicU64::new(u64::MAX));

    // corpus first: golden plans and minimised replays of everything found so far
    let mut corpus_runs = 0u64;
    let corpus_dir = format!("{}/corpus/{}", crate::verif_root(), def.property);
    let mut corpus_files: Vec<String> = std::fs::read_dir(&corpus_dir)
        .map(|rd| rd.filter_map(|e| e.ok()).map(|e| e.path().to_string_lossy().to_string()).filter(|p| p.ends_with(".json")).collect())
        .unwrap_or_default();
    corpus_files.sort();
    let mut corpus_found: Vec<(String, Plan, Violation)> = Vec::new();
    for path in corpus_files.iter() {
        match Plan::load(path) {
            Ok(plan) => {
                let Some(fam) = def.family_named(&plan.scenario) else { continue };
                corpus_runs += 1;
                match run_in_child_if_hang(def, fam, &plan) {
                    Ok(Some(v)) => corpus_found.push((path.clone(), plan, v)),
                    Ok(None) => (),
                    Err(e) => {
                        println!("HARNESS-ERROR corpus {}: {}", path, e);
                        return CheckResult { exit_code: 2 };
                    }
                }
            }
            Err(e) => {
                println!("HARNESS-ERROR corpus {}: {}", path, e);
                return CheckResult { exit_code: 2 };
            }
        }
    }

    let mut handles = Vec::new();
    for w in 0..workers {
        let counter = counter.clone();
        let stop = stop.clone();
        let agg = agg.clone();
        let done_workers = done_workers.clone();
        let min_violation_run = min_violation_run.clone();
        let def_ptr = def as *const CheckDef as usize;
        let known_list = known_list.clone();
        handles.push(std::thread::Builder::new().stack_size(16 << 20).spawn(move || {
            // SAFETY: `def` outlives the workers (they are joined or the process exits)
            let def: &CheckDef = unsafe { &*(def_ptr as *const CheckDef) };
            watchdog::register_worker(w);
            let mut local = Agg::default();
            loop {
                if stop.load(Ordering::Relaxed) {
                    break;
                }
                let run = counter.fetch_add(1, Ordering::Relaxed);
                if run >= budget_runs || run > min_violation_run.load(Ordering::Relaxed) {
                    break;
                }
                let fam = def.family_of(run);
                let plan = (fam.gen)(seed, run, thorough);
                watchdog::set_run(run + 1);
                let result = std::panic::catch_unwind(std::panic::AssertUnwindSafe(|| run_plan(def, fam, &plan, false)))
                    .unwrap_or_else(|_| Err("panic inside the harness (see HARNESS PANIC line on stderr)".to_string()));
                match result {
                    Ok(v) => {
                        local.evaluations += 1;
                        *local.per_family.entry(fam.name.to_string()).or_insert(0) += 1;
                        local.sim_us += v.stats.sim_us;
                        for (k, x) in v.reach.iter() {
                            if k.starts_with("max_") {
                                let e = local.reach.entry(k.clone()).or_insert(0);
                                *e = (*e).max(*x);
                            } else {
                                *local.reach.entry(k.clone()).or_insert(0) += x;
                            }
                        }
                        for s in v.states {
                            if local.states.len() < 2_000_000 {
                                local.states.insert(s);
                            }
                        }
                        if let Some(d) = v.aborted_by_panic {
                            local.aborted += 1;
                            if local.aborted_first.as_ref().map_or(true, |(r, _)| run < *r) {
                                local.aborted_first = Some((run, d));
                            }
                        }
                        if v.nontrivial {
                            local.nontrivial += 1;
                            local.digests.insert(v.digest);
                        }
                        if local.samples.len() < 1 && (run % 7 == 3 || run < 2) {
                            local.samples.push(abbreviate(&plan));
                        }
                        if let Some(viol) = v.violation {
                            if let Some(kf) = known::matches(&known_list, &viol, &plan) {
                                *local.known_hits.entry(kf).or_insert(0) += 1;
                            } else {
                                min_violation_run.fetch_min(run, Ordering::Relaxed);
                                local.found.push((run, viol));
                            }
                        }
                    }
                    Err(e) => {
                        local.harness_errors.push(format!("run {}: {}", run, e));
                        stop.store(true, Ordering::Relaxed);
                    }
                }
                watchdog::set_run(0);
            }
            let mut a = agg.lock().unwrap();
            a.evaluations += local.evaluations;
            a.nontrivial += local.nontrivial;
            a.digests.extend(local.digests);
            for (k, x) in local.reach {
                if k.starts_with("max_") {
                    let e = a.reach.entry(k).or_insert(0);
                    *e = (*e).max(x);
                } else {
                    *a.reach.entry(k).or_insert(0) += x;
                }
            }
            for (k, x) in local.per_family {
                *a.per_family.entry(k).or_insert(0) += x;
            }
            a.samples.extend(local.samples);
            a.states.extend(local.states);
            a.sim_us += local.sim_us;
            a.found.extend(local.found);
            for (k, x) in local.known_hits {
                *a.known_hits.entry(k).or_insert(0) += x;
            }
            a.harness_errors.extend(local.harness_errors);
            a.aborted += local.aborted;
            if let Some((r, d)) = local.aborted_first {
                if a.aborted_first.as_ref().map_or(true, |(r0, _)| r < *r0) {
                    a.aborted_first = Some((r, d));
                }
            }
            done_workers.fetch_add(1, Ordering::Release);
        }).expect("spawn worker"));
    }

    // supervisor: wall-clock cap and hang suspicion
    let hang_limit_ms: u64 = std::env::var("VERIF_HANG_MS").ok().and_then(|s| s.parse().ok()).unwrap_or(20_000);
    let mut hang: Option<(u64, u64)> = None;
    let mut capped = false;
    loop {
        if done_workers.load(Ordering::Acquire) as usize == workers {
            break;
        }
        std::thread::sleep(std::time::Duration::from_millis(50));
        if start.elapsed().as_secs() > wall_cap_s && !capped {
            capped = true;
            stop.store(true, Ordering::Relaxed);
        }
        let stuck = watchdog::stuck(hang_limit_ms);
        if let Some((_, run_key, call, _)) = stuck.first() {
            if *run_key != 0 {
                hang = Some((*run_key - 1, *call));
                stop.store(true, Ordering::Relaxed);
                // give the healthy workers a moment to finish their current run
                let t0 = Instant::now();
                while (done_workers.load(Ordering::Acquire) as usize) < workers - stuck.len() && t0.elapsed().as_secs() < 30 {
                    std::thread::sleep(std::time::Duration::from_millis(20));
                }
                break;
            }
        }
    }
    let hung = hang.is_some();
    if !hung {
        for h in handles {
            let _ = h.join();
        }
    }

    let mut exit_code = 0;
    let mut violations_reported = 0;
    let mut a = agg.lock().unwrap();

    if !a.harness_errors.is_empty() {
        for e in a.harness_errors.iter() {
            println!("HARNESS-ERROR {}", e);
        }
        return finish(def, thorough, seed, &a, start, corpus_runs, 0, 2, hung);
    }

    // corpus violations
    for (path, plan, viol) in corpus_found {
        if let Some(kf) = known::matches(&known_list, &viol, &plan) {
            *a.known_hits.entry(kf).or_insert(0) += 1;
            continue;
        }
        println!("corpus plan {} violates: [{}] {}", path, viol.clause, viol.detail);
        println!("VIOLATION property={} replay={}", def.property, path);
        violations_reported += 1;
        exit_code = 1;
    }

    // confirmed hang?
    if let Some((run, call)) = hang {
        let fam = def.family_of(run);
        let dir = replay_dir(def.property);
        let _ = std::fs::create_dir_all(&dir);
        let path = format!("{}/hang-{}-s{}-r{}.json", dir, fam.name, seed, run);
        println!("suspected hang: run {} (family {}) call {}; confirming in a child process", run, fam.name, call);
        match confirm_hang(def, fam.name, seed, run, call, thorough, &path) {
            Ok(true) if !def.hang_is_violation => {
                println!("note: run {} (family {}) was cut short by a call into uflow that never returned (call {}); hangs are decided by C03/C11/C14, replay kept at {}", run, fam.name, call, path);
            }
            Ok(true) => {
                let viol = Violation { property: def.property.into(), clause: "hang".into(), detail: format!("call {} of run {} did not return", call, run), at_call: call };
                let plan = Plan::load(&path).ok();
                let kf = plan.as_ref().and_then(|p| known::matches(&known_list, &viol, p));
                if let Some(kf) = kf {
                    *a.known_hits.entry(kf).or_insert(0) += 1;
                } else {
                    let final_path = minimize::minimise_hang(def, &path).unwrap_or(path.clone());
                    println!("hang confirmed: {}", viol.detail);
                    println!("VIOLATION property={} replay={}", def.property, final_path);
                    violations_reported += 1;
                    exit_code = 1;
                }
            }
            Ok(false) => println!("note: suspected hang did not reproduce in the child process (slow machine?); ignored"),
            Err(e) => {
                println!("HARNESS-ERROR hang confirmation: {}", e);
                exit_code = 2;
            }
        }
    }

    // the violating run with the smallest index is the one reported (deterministic choice)
    a.found.sort_by_key(|(run, _)| *run);
    if let Some((run, viol)) = a.found.first().cloned() {
        match report_violation(def, seed, run, thorough, &viol) {
            Ok(path) => {
                println!("VIOLATION property={} replay={}", def.property, path);
                violations_reported += 1;
                exit_code = 1;
            }
            Err(e) => {
                println!("HARNESS-ERROR run {}: {}", run, e);
                exit_code = 2;
            }
        }
    }

    for (kf, n) in a.known_hits.iter() {
        println!("KNOWN-FINDING: property={} {} (hit {} times)", def.property, kf, n);
    }
    if let Some((r, d)) = &a.aborted_first {
        println!("note: {} runs were cut short by a panic inside uflow that is not this property's concern (C03 decides panics); first: run {}: {}", a.aborted, r, d);
    }
    if capped {
        println!("note: wall-clock cap of {} s reached after {} runs", wall_cap_s, a.evaluations);
    }

    finish(def, thorough, seed, &a, start, corpus_runs, violations_reported, exit_code, hung)
}

fn finish(def: &CheckDef, thorough: bool, seed: u64, a: &Agg, start: Instant, corpus_runs: u64, violations: u64, exit_code: i32, hung: bool) -> CheckResult {
    let wall = start.elapsed().as_secs_f64();
    let mut reach = a.reach.clone();
    let fault_kinds: BTreeMap<String, u64> = reach.iter().filter(|(k, _)| k.starts_with("fault_")).map(|(k, v)| (k.clone(), *v)).collect();
    let stuck_at_zero: Vec<String> = reach.iter().filter(|(k, v)| **v == 0 && !k.starts_with("fault_") && !k.starts_with("byproduct_")).map(|(k, _)| k.clone()).collect();
    reach.retain(|k, _| !k.starts_with("fault_"));
    let evidence = json!({
        "property_id": def.property,
        "tier": if thorough { "thorough" } else { "quick" },
        "seed": seed,
        "level": "exploration",
        "wall_s": wall,
        "violations": violations,
        "coverage": {
            "evaluations": a.evaluations + corpus_runs,
            "distinct_nontrivial": a.digests.len(),
            "rule": def.rule,
            "samples": a.samples.iter().take(3).collect::<Vec<_>>(),
            "simulated_runs": a.evaluations,
            "corpus_replays": corpus_runs,
            "runs_per_hour": if wall > 0.0 { (a.evaluations as f64 / wall * 3600.0) as u64 } else { 0 },
            "simulated_seconds": a.sim_us / 1_000_000,
            "simulated_hours_per_hour": if wall > 0.0 { (a.sim_us as f64 / 1e6 / wall) as u64 } else { 0 },
            "runs_per_family": a.per_family,
            "families": def.families.iter().map(|f| json!({"name": f.name, "world": f.world, "what": f.what})).collect::<Vec<_>>(),
            "faults_fired": fault_kinds,
            "distinct_abstract_states": a.states.len(),
            "state_measure": "hash of bucketed probe tuples after each call: window fill levels (frame / packet / alloc, 4 buckets each), queue emptiness, TFRC mode, rate bucket, connection state tags",
            "reach": reach,
            "reach_probes_stuck_at_zero": stuck_at_zero,
            "real_code": def.real_code,
            "stubs": def.stubs,
            "worker_hung": hung,
            "runs_cut_short_by_uflow_panic": a.aborted,
        },
        "assumptions": def.assumptions,
    });
    let dir = format!("{}/evidence", crate::verif_root());
    let _ = std::fs::create_dir_all(&dir);
    let path = format!("{}/{}.json", dir, def.property);
    if let Err(e) = std::fs::write(&path, serde_json::to_string_pretty(&evidence).unwrap()) {
        println!("HARNESS-ERROR cannot write {}: {}", path, e);
        return CheckResult { exit_code: 2 };
    }
    println!(
        "{}: {} runs ({} distinct non-trivial), {:.0} simulated s, {:.1} s wall, {} abstract states, exit {}",
        def.property, a.evaluations, a.digests.len(), a.sim_us as f64 / 1e6, wall, a.states.len(), exit_code
    );
    CheckResult { exit_code }
}

/// Re-runs the violating run with materialisation, minimises it, writes the replay file and
/// verifies it in a fresh process.
fn report_violation(def: &CheckDef, seed: u64, run: u64, thorough: bool, first: &Violation) -> Result<String, String> {
    let fam = def.family_of(run);
    let plan = (fam.gen)(seed, run, thorough);
    let v = run_plan(def, fam, &plan, true)?;
    let viol = v.violation.clone().ok_or_else(|| format!("violation [{}] of run {} did not reproduce on re-run (non-determinism)", first.clause, run))?;
    if viol.clause != first.clause {
        return Err(format!("re-run of run {} reports [{}] instead of [{}] (non-determinism)", run, viol.clause, first.clause));
    }
    let mut mat = v.materialised.ok_or("no materialised plan")?;
    // the materialised plan must behave identically
    let v2 = run_plan(def, fam, &mat, false)?;
    match &v2.violation {
        Some(x) if x.clause == viol.clause && v2.digest == v.digest => (),
        other => {
            return Err(format!(
                "materialised plan of run {} does not reproduce: search digest {:016x} clause [{}], replay digest {:016x} clause {:?}",
                run, v.digest, viol.clause, v2.digest, other.as_ref().map(|x| x.clause.clone())
            ))
        }
    }
    println!("run {} (family {}): [{}] {}", run, fam.name, viol.clause, viol.detail);
    let before = mat.timeline.len();
    let (min_plan, min_viol, tried) = minimize::minimise(def, fam, mat.clone(), &viol);
    println!("minimised: {} -> {} timeline ops, {} candidate runs", before, min_plan.timeline.len(), tried);
    mat = min_plan;
    let vm = run_plan(def, fam, &mat, false)?;
    mat.expect = Some(Expect { violation: format!("{}/{}", def.property, min_viol.clause), at_call: min_viol.at_call, digest: format!("{:016x}", vm.digest) });
    let dir = replay_dir(def.property);
    let clause_name: String = min_viol.clause.chars().map(|c| if c.is_ascii_alphanumeric() || c == '_' || c == '-' || c == '.' { c } else { '_' }).collect();
    let path = format!("{}/{}-{}-s{}-r{}.json", dir, fam.name, clause_name, seed, run);
    mat.save(&path)?;
    println!("minimised violation: [{}] {}", min_viol.clause, min_viol.detail);
    // fresh-process replay
    let exe = std::env::current_exe().map_err(|e| e.to_string())?;
    let out = std::process::Command::new(exe).arg("replay").arg(&path).output().map_err(|e| e.to_string())?;
    let text = String::from_utf8_lossy(&out.stdout);
    if out.status.code() != Some(1) || !text.contains("REPRODUCED") {
        return Err(format!("fresh-process replay of {} did not reproduce (exit {:?}): {}", path, out.status.code(), text.trim()));
    }
    Ok(path)
}

/// Corpus plans that are expected to hang (before a fix) must not block the checking process.
fn run_in_child_if_hang(def: &CheckDef, fam: &Family, plan: &Plan) -> Result<Option<Violation>, String> {
    let is_hang = plan.expect.as_ref().map_or(false, |e| e.violation.ends_with("/hang"));
    if !is_hang {
        return Ok(run_plan(def, fam, plan, false)?.violation);
    }
    let tmp = format!("{}/replays/.tmp-corpus-{}.json", crate::verif_root(), std::process::id());
    plan.save(&tmp)?;
    let exe = std::env::current_exe().map_err(|e| e.to_string())?;
    let out = std::process::Command::new(exe).arg("replay").arg(&tmp).arg("--alarm").arg("10").output().map_err(|e| e.to_string())?;
    let _ = std::fs::remove_file(&tmp);
    let text = String::from_utf8_lossy(&out.stdout).to_string();
    match out.status.code() {
        Some(0) => Ok(None),
        Some(1) => {
            let clause = if text.contains("clause=hang") { "hang" } else { "other" };
            Ok(Some(Violation { property: def.property.into(), clause: clause.into(), detail: text.lines().last().unwrap_or("").to_string(), at_call: plan.expect.as_ref().map_or(0, |e| e.at_call) }))
        }
        c => Err(format!("corpus replay exited with {:?}: {}", c, text)),
    }
}

fn confirm_hang(def: &CheckDef, family: &str, seed: u64, run: u64, call: u64, thorough: bool, path: &str) -> Result<bool, String> {
    let exe = std::env::current_exe().map_err(|e| e.to_string())?;
    let out = std::process::Command::new(exe)
        .arg("confirm-hang")
        .arg(def.property)
        .arg(family)
        .arg(seed.to_string())
        .arg(run.to_string())
        .arg(call.to_string())
        .arg(if thorough { "thorough" } else { "quick" })
        .arg(path)
        .output()
        .map_err(|e| e.to_string())?;
    match out.status.code() {
        Some(3) => Ok(true),
        Some(0) => Ok(false),
        c => Err(format!("child exited with {:?}: {}", c, String::from_utf8_lossy(&out.stdout))),
    }
}

/// Determinism self-test helper: digest of each run in [from, to).
pub fn digests(def: &CheckDef, seed: u64, from: u64, to: u64, thorough: bool) -> Vec<(u64, u64, Option<String>)> {
    let mut v = Vec::new();
    for run in from..to {
        let fam = def.family_of(run);
        let plan = (fam.gen)(seed, run, thorough);
        match run_plan(def, fam, &plan, false) {
            Ok(r) => v.push((run, r.digest, r.violation.map(|x| x.clause))),
            Err(e) => v.push((run, 0, Some(format!("ERR {}", e)))),
        }
    }
    v
}

pub fn plan_key(plan: &Plan) -> u64 {
    key(&[plan.seed, plan.run, crate::rng::str_key(&plan.scenario)])
}

#[allow(dead_code)]
pub fn unused(_: BTreeSet<u64>) {}
