//! Reach measure: distinct abstract states, i.e. hashes of bucketed probe tuples after each call.

use crate::rng::key;
use crate::world::*;
use std::collections::{BTreeMap, HashSet};
use uflow::verif::HcProbe;

pub struct StateCoverage {
    seen: HashSet<u64>,
}

impl StateCoverage {
    pub fn new() -> Self {
        Self { seen: HashSet::new() }
    }
}

fn fill(cur: u64, max: u64) -> u64 {
    if cur == 0 {
        0
    } else if cur >= max {
        3
    } else if cur * 2 < max {
        1
    } else {
        2
    }
}

pub fn hc_bucket(h: &HcProbe) -> u64 {
    let fw = fill(h.tx_frame_next_id.wrapping_sub(h.tx_frame_window_base_id) as u64, h.tx_frame_window_size as u64);
    let pw = fill((h.tx_packet_next_id.wrapping_sub(h.tx_packet_base_id) & 0xFFFFF) as u64, h.tx_packet_window_size as u64);
    let ta = fill(h.tx_alloc as u64, h.tx_max_alloc as u64);
    let ra = fill(h.rx_alloc as u64, h.rx_max_alloc as u64);
    let rate = if h.send_rate == 0 { 0 } else { (63 - (h.send_rate as u64).leading_zeros() as u64) / 3 };
    key(&[
        fw, pw, ta, ra,
        (h.send_queue_len > 0) as u64, (h.pending_queue_len > 0) as u64, (h.resend_queue_len > 0) as u64,
        h.rate_mode as u64, rate, (h.flush_alloc < 0) as u64, (h.ack_queue_len > 0) as u64 + (h.ack_queue_len > 8) as u64,
        h.sync_reply as u64, h.rtt_ms.is_some() as u64, h.nofeedback_idle as u64,
        fill((h.rx_packet_end_id.wrapping_sub(h.rx_packet_base_id) & 0xFFFFF) as u64, h.rx_packet_window_size as u64),
    ])
}

impl Oracle for StateCoverage {
    fn on(&mut self, rec: &Rec, _cx: &Cx) -> Option<Violation> {
        if let Rec::Probe { probe, .. } = rec {
            let h = match probe {
                Probe::Hc(h) => key(&[1, hc_bucket(h)]),
                Probe::Client(c) => key(&[2, c.state as u64, c.hc.as_ref().map_or(0, hc_bucket)]),
                Probe::Server(s) => {
                    let mut parts = vec![3, s.clients_len.min(8) as u64, s.active_clients_len.min(8) as u64, (s.timer_queue_len > 0) as u64];
                    for c in s.clients.iter().take(4) {
                        parts.push(c.state as u64);
                        parts.push(c.hc.as_ref().map_or(0, hc_bucket));
                    }
                    key(&parts)
                }
                Probe::Rate(r) => key(&[4, r.mode as u64, (r.send_rate as u64).max(1).ilog2() as u64, r.rtt_s.is_some() as u64]),
                Probe::None => return None,
            };
            if self.seen.len() < 50_000 {
                self.seen.insert(h);
            }
        }
        None
    }

    fn states(&self, out: &mut Vec<u64>) {
        out.extend(self.seen.iter().cloned());
    }

    fn reach(&self, _out: &mut BTreeMap<String, u64>) {}
}
