//! The simulator core: one discrete-event loop that owns the clock, the network and every call
//! into uflow. Real code: HalfConnection / Client / Server (and everything below them). Stubs:
//! the clock, the random source and the UDP socket (hooks in /repo/src/verif), plus – for bare
//! half connections (World A) – the 40 lines of Client/Server glue, mirrored by `hc_step`.

use crate::alloc;
use crate::plan::*;
use crate::rng::{key, Digest, Rng};
use crate::watchdog;

use std::cell::RefCell;
use std::collections::{BTreeMap, BinaryHeap, VecDeque};
use std::net::SocketAddr;
use std::panic::{catch_unwind, AssertUnwindSafe};
use std::rc::Rc;

use uflow::verif as uv;
use uflow::verif::Serialize;
use uflow::SendMode;

pub const FRAME_SYN: u8 = 0;
pub const FRAME_SYN_ACK: u8 = 1;
pub const FRAME_HS_ACK: u8 = 2;
pub const FRAME_HS_ERR: u8 = 3;
pub const FRAME_DISC: u8 = 4;
pub const FRAME_DISC_ACK: u8 = 5;
pub const FRAME_DATA: u8 = 10;
pub const FRAME_SYNC: u8 = 11;
pub const FRAME_ACK: u8 = 12;

pub const ERR_TIMEOUT: u8 = 0;
pub const ERR_VERSION: u8 = 1;
pub const ERR_CONFIG: u8 = 2;
pub const ERR_SERVER_FULL: u8 = 3;

#[derive(Clone, Debug)]
pub enum AppEvent {
    Connect,
    Disconnect,
    Receive(Rc<Vec<u8>>),
    Error(u8),
}

#[derive(Clone, Debug)]
pub enum Probe {
    Hc(uv::HcProbe),
    Client(uv::ClientProbe),
    Server(uv::ServerProbe),
    Rate(RateProbe),
    None,
}

#[derive(Clone, Debug)]
pub struct RateProbe {
    pub send_rate: u32,
    pub max_send_rate: u32,
    pub rtt_s: Option<f64>,
    pub mode: u8,
    pub nofeedback_exp_ms: Option<u64>,
}

#[derive(Clone, Debug)]
pub struct WireRec {
    pub call: u64,
    pub t_ns: u64,
    pub local_ms: u64,
    pub local_ns: u64,
    pub src: usize,
    pub dst: Option<usize>,
    pub dst_addr: SocketAddr,
    pub bytes: Rc<Vec<u8>>,
    pub ord: u64,
    pub fate: Fate,
    /// scheduled arrival time of each copy (after fifo adjustment)
    pub arrivals_ns: Vec<u64>,
}

/// Everything that happens in a run is announced to the oracles as one of these records.
#[derive(Clone, Debug)]
pub enum Rec {
    /// About to call into endpoint `ep` (or apply a harness operation).
    Call { call: u64, t_ns: u64, local_ms: u64, local_ns: u64, ep: Option<usize>, op: Op, skipped: bool },
    /// A send() was issued with this payload; `accepted` tells whether the endpoint queued it.
    Submit { call: u64, ep: usize, to: Option<usize>, ch: u8, mode: u8, tag: u32, payload: Rc<Vec<u8>>, accepted: bool, echo: bool },
    /// A datagram left endpoint `src` during call `call`.
    Wire(WireRec),
    /// A datagram (possibly corrupted) reached the inbox of `dst`.
    Delivered { t_ns: u64, dst: usize, src_addr: SocketAddr, src: Option<usize>, bytes: Rc<Vec<u8>>, accepted: bool, injected: bool },
    /// The endpoint read this datagram from its inbox during call `call`.
    Consumed { call: u64, ep: usize, src_addr: SocketAddr, src: Option<usize>, bytes: Rc<Vec<u8>> },
    /// Application-visible event returned by step(); `peer` is the client endpoint for servers.
    Event { call: u64, t_ns: u64, local_ms: u64, local_ns: u64, ep: usize, peer: Option<usize>, peer_addr: Option<SocketAddr>, ev: AppEvent },
    /// Internal trace event (hook H6) of half connection `hc`.
    Trace { call: u64, ep: usize, hc: u64, ev: uv::trace::Event },
    /// State snapshot (hook H5) after the call.
    Probe { call: u64, t_ns: u64, ep: usize, probe: Probe, heap_live: i64 },
    /// What the public query send_buffer_size() answers for an established connection (taken
    /// right after the probe; `peer_addr` is the client's address on a server).
    ApiSize { call: u64, ep: usize, peer_addr: Option<SocketAddr>, size: u64 },
    /// The call returned (or panicked).
    CallEnd { call: u64, ep: Option<usize>, panic: Option<PanicInfo> },
    /// End of the run; endpoints still exist.
    End { t_ns: u64 },
    /// After every endpoint object has been dropped.
    Teardown { live: Vec<i64>, live_blocks: Vec<i64>, zero_size: u64, mismatches: u64 },
}

#[derive(Clone, Debug, PartialEq)]
pub struct PanicInfo {
    pub message: String,
    pub file: String,
    pub line: u32,
}

#[derive(Clone, Debug)]
pub struct Violation {
    pub property: String,
    pub clause: String,
    pub detail: String,
    pub at_call: u64,
}

pub trait Oracle {
    fn on(&mut self, rec: &Rec, cx: &Cx) -> Option<Violation>;
    /// Reach counters for the evidence file.
    fn reach(&self, _out: &mut BTreeMap<String, u64>) {}
    /// Whether this run counts as non-trivial for the property.
    fn nontrivial(&self) -> bool {
        true
    }
    /// Abstract states visited (reach measure).
    fn states(&self, _out: &mut Vec<u64>) {}
}

/// Read-only context handed to oracles.
pub struct Cx<'a> {
    pub plan: &'a Plan,
    pub addrs: &'a [SocketAddr],
    pub now_ns: u64,
}

impl<'a> Cx<'a> {
    pub fn ep_of(&self, addr: &SocketAddr) -> Option<usize> {
        self.addrs.iter().position(|a| a == addr)
    }
}

pub trait Adversary {
    /// A middlebox may re-encode a datagram in transit: returns the bytes to deliver instead of
    /// the first clean copy (recorded in the materialised fate).
    fn rewrite(&mut self, _src: usize, _dst: usize, _bytes: &[u8], _fate: &Fate, _plan: &Plan) -> Option<Vec<u8>> {
        None
    }
    /// Called for every datagram on the wire; may schedule injected datagrams.
    fn on_wire(&mut self, w: &WireRec, now_us: u64, plan: &Plan, out: &mut Vec<TimedOp>);
    fn on_call_end(&mut self, _call: u64, _ep: Option<usize>, _probe: &Probe, _now_us: u64, _plan: &Plan, _out: &mut Vec<TimedOp>) {}
}

#[derive(Clone, Debug, Default)]
pub struct Stats {
    pub calls: u64,
    pub datagrams: u64,
    pub dropped: u64,
    pub duplicated: u64,
    pub flipped: u64,
    pub garbled: u64,
    pub delayed: u64,
    pub blackout_dropped: u64,
    pub type_dropped: u64,
    pub injected: u64,
    pub rewritten: u64,
    pub sock_errors: u64,
    pub inbox_overflow: u64,
    pub no_socket: u64,
    pub clock_jumps: u64,
    pub crashes: u64,
    pub skipped_ops: u64,
    pub sim_us: u64,
    pub events_app: u64,
    pub packets_delivered: u64,
    pub crc_rejected: u64,
    pub crc_missed: u64,
}

impl Stats {
    pub fn add_to(&self, out: &mut BTreeMap<String, u64>) {
        let mut a = |k: &str, v: u64| *out.entry(k.to_string()).or_insert(0) += v;
        a("calls", self.calls);
        a("datagrams", self.datagrams);
        a("fault_drop", self.dropped);
        a("fault_dup", self.duplicated);
        a("fault_flip_1to4_bits", self.flipped);
        a("fault_garble", self.garbled);
        a("fault_delay_reorder", self.delayed);
        a("fault_blackout_drop", self.blackout_dropped);
        a("fault_type_targeted_drop", self.type_dropped);
        a("fault_injected_datagram", self.injected);
        a("fault_rewritten_in_transit", self.rewritten);
        a("fault_socket_error", self.sock_errors);
        a("fault_inbox_overflow", self.inbox_overflow);
        a("fault_no_socket", self.no_socket);
        a("fault_clock_jump", self.clock_jumps);
        a("fault_crash", self.crashes);
        a("skipped_ops", self.skipped_ops);
        a("sim_us", self.sim_us);
        a("app_events", self.events_app);
        a("packets_delivered", self.packets_delivered);
        a("byproduct_flipped_frames_rejected_by_crc", self.crc_rejected);
        a("byproduct_flipped_frames_accepted_by_crc", self.crc_missed);
    }
}

pub struct RunOutcome {
    pub digest: u64,
    pub violation: Option<Violation>,
    pub panic: Option<(PanicInfo, u64, String)>,
    pub stats: Stats,
    pub materialised: Option<Plan>,
    pub calls: u64,
}

#[derive(Clone, Debug, Default)]
pub struct ExecOpts {
    pub materialise: bool,
    /// Write the materialised plan to this path just before call number `.0` (hang confirmation).
    pub dump_before_call: Option<(u64, String)>,
    /// Do not stop at a panic in uflow: report it through CallEnd only.
    pub panics_are_records: bool,
}

// ---------------------------------------------------------------------------------------------

struct VecFrameSink {
    frames: Vec<Vec<u8>>,
}

impl uv::FrameSink for VecFrameSink {
    fn send(&mut self, frame_data: &[u8]) {
        self.frames.push(frame_data.to_vec());
    }
}

struct VecPacketSink {
    packets: Vec<Box<[u8]>>,
}

impl uv::PacketSink for VecPacketSink {
    fn send(&mut self, packet_data: Box<[u8]>) {
        self.packets.push(packet_data);
    }
}

enum EpObj {
    None,
    Hc(Box<uv::HalfConnection>),
    Client(Box<uflow::client::Client>),
    Server(Box<uflow::server::Server>),
    Raw,
    Rate(Box<uv::SendRateComp>),
}

struct EpRt {
    obj: EpObj,
    addr: SocketAddr,
    ppm: u64,
    offset_ns: u64,
    /// Harness-side inbox (Hc, Raw) or mirror of the simulated socket's inbox (Client, Server).
    inbox: VecDeque<(SocketAddr, Rc<Vec<u8>>)>,
    inbox_cap: usize,
    incarnations: u32,
}

#[derive(PartialEq, Eq)]
struct HeapItem {
    t_ns: u64,
    rank: u32,
    seq: u64,
    kind: ItemKind,
}

#[derive(PartialEq, Eq)]
enum ItemKind {
    Timeline(usize),
    Extra(usize),
    Repeat(usize),
    Deliver(usize),
}

impl Ord for HeapItem {
    fn cmp(&self, other: &Self) -> std::cmp::Ordering {
        (other.t_ns, other.rank, other.seq).cmp(&(self.t_ns, self.rank, self.seq))
    }
}
impl PartialOrd for HeapItem {
    fn partial_cmp(&self, other: &Self) -> Option<std::cmp::Ordering> {
        Some(self.cmp(other))
    }
}

struct PendingDelivery {
    dst: usize,
    src_addr: SocketAddr,
    src: Option<usize>,
    bytes: Rc<Vec<u8>>,
}

const DELIVER_RANK: u32 = 0x8000_0000;

thread_local! {
    static LAST_PANIC: RefCell<Option<PanicInfo>> = RefCell::new(None);
}

pub fn install_panic_hook() {
    std::panic::set_hook(Box::new(|info| {
        let message = if let Some(s) = info.payload().downcast_ref::<&str>() {
            s.to_string()
        } else if let Some(s) = info.payload().downcast_ref::<String>() {
            s.clone()
        } else {
            "panic".to_string()
        };
        let (file, line) = info.location().map(|l| (l.file().to_string(), l.line())).unwrap_or(("?".into(), 0));
        let in_sim = LAST_PANIC.try_with(|p| {
            if let Ok(mut p) = p.try_borrow_mut() {
                *p = Some(PanicInfo { message: message.clone(), file: file.clone(), line });
            }
        });
        // Panics outside a guarded call (harness bugs) must stay visible.
        if in_sim.is_err() || !watchdog::in_guarded_call() {
            eprintln!("HARNESS PANIC at {}:{}: {}", file, line, message);
        }
    }));
}

fn take_panic() -> PanicInfo {
    LAST_PANIC
        .with(|p| p.borrow_mut().take())
        .unwrap_or(PanicInfo { message: "unknown panic".into(), file: "?".into(), line: 0 })
}

pub fn make_payload(ep: usize, ch: u8, mode: u8, len: u32, tag: u32) -> Vec<u8> {
    let len = len as usize;
    let mut v = vec![0u8; len];
    let mut r = Rng::keyed(&[0x7061796c, ep as u64, tag as u64, len as u64]);
    // header: magic, ep, ch, mode, tag(4), len(4), then keyed bytes
    let mut hdr = [0u8; 12];
    hdr[0] = 0xA5;
    hdr[1] = ep as u8;
    hdr[2] = ch;
    hdr[3] = mode;
    hdr[4..8].copy_from_slice(&tag.to_be_bytes());
    hdr[8..12].copy_from_slice(&(len as u32).to_be_bytes());
    if len >= 12 {
        v[..12].copy_from_slice(&hdr);
        let mut i = 12;
        while i < len {
            let w = r.u64().to_le_bytes();
            let n = (len - i).min(8);
            v[i..i + n].copy_from_slice(&w[..n]);
            i += n;
        }
    } else {
        // too short for a header: as much of the tag as fits, low bytes first
        let t = tag.to_le_bytes();
        for i in 0..len {
            v[i] = if i < 4 { t[i] } else { (r.u64() & 0xff) as u8 };
        }
    }
    v
}

/// (ep, ch, mode, tag, len) if the payload carries a header.
pub fn parse_payload(p: &[u8]) -> Option<(usize, u8, u8, u32, u32)> {
    if p.len() >= 12 && p[0] == 0xA5 {
        let tag = u32::from_be_bytes([p[4], p[5], p[6], p[7]]);
        let len = u32::from_be_bytes([p[8], p[9], p[10], p[11]]);
        Some((p[1] as usize, p[2], p[3], tag, len))
    } else {
        None
    }
}

fn send_mode(mode: u8) -> SendMode {
    match mode {
        MODE_TIME_SENSITIVE => SendMode::TimeSensitive,
        MODE_UNRELIABLE => SendMode::Unreliable,
        MODE_PERSISTENT => SendMode::Persistent,
        _ => SendMode::Reliable,
    }
}

fn to_uflow_cfg(c: &EndpointCfg) -> uflow::EndpointConfig {
    uflow::EndpointConfig {
        max_send_rate: c.max_send_rate as usize,
        max_receive_rate: c.max_receive_rate as usize,
        max_packet_size: c.max_packet_size as usize,
        max_receive_alloc: c.max_receive_alloc as usize,
        keepalive: c.keepalive,
        keepalive_interval_ms: c.keepalive_interval_ms,
        active_timeout_ms: c.active_timeout_ms,
    }
}

fn to_hc_cfg(s: &HcSpec) -> uv::HalfConnectionConfig {
    uv::HalfConnectionConfig {
        tx_frame_base_id: s.tx_frame_base_id,
        rx_frame_base_id: s.rx_frame_base_id,
        tx_frame_window_size: s.tx_frame_window_size,
        rx_frame_window_size: s.rx_frame_window_size,
        tx_packet_base_id: s.tx_packet_base_id,
        rx_packet_base_id: s.rx_packet_base_id,
        tx_packet_window_size: s.tx_packet_window_size,
        rx_packet_window_size: s.rx_packet_window_size,
        tx_bandwidth_limit: s.tx_bandwidth_limit,
        tx_alloc_limit: s.tx_alloc_limit as usize,
        rx_alloc_limit: s.rx_alloc_limit as usize,
        keepalive_interval_ms: s.keepalive_interval_ms,
    }
}

pub fn ceil_fragment(n: u64) -> u64 {
    let f = uflow::MAX_FRAGMENT_SIZE as u64;
    (n.saturating_add(f - 1) / f).saturating_mul(f)
}

/// Result of one guarded call into an endpoint.
#[derive(Default)]
struct CallOut {
    frames: Vec<(SocketAddr, Vec<u8>)>,
    events: Vec<(Option<SocketAddr>, AppEvent)>,
    consumed_hc: Vec<(SocketAddr, Rc<Vec<u8>>)>,
}

pub struct World<'a> {
    plan: &'a Plan,
    opts: ExecOpts,
    eps: Vec<EpRt>,
    addrs: Vec<SocketAddr>,
    heap: BinaryHeap<HeapItem>,
    seq: u64,
    now_ns: u64,
    call: u64,
    extra_ops: Vec<TimedOp>,
    repeat_ops: Vec<TimedOp>,
    deliveries: Vec<Option<PendingDelivery>>,
    rules: BTreeMap<(usize, usize), LinkRule>,
    default_rule: LinkRule,
    ordinals: BTreeMap<(usize, usize), u64>,
    fifo_last: BTreeMap<(usize, usize), u64>,
    applied: BTreeMap<String, BTreeMap<u64, Fate>>,
    digest: Digest,
    stats: Stats,
    violation: Option<Violation>,
    panic: Option<(PanicInfo, u64, String)>,
    adversary: Option<Box<dyn Adversary>>,
    stop: bool,
    ended_early: bool,
    healed: bool,
    busy_ops_left: usize,
    pending_deliveries: usize,
    cur_rank: u32,
}

fn link_name(a: usize, b: usize) -> String {
    format!("{}>{}", a, b)
}

impl<'a> World<'a> {
    pub fn new(plan: &'a Plan, opts: ExecOpts, adversary: Option<Box<dyn Adversary>>) -> Result<Self, String> {
        let mut eps = Vec::new();
        let mut addrs = Vec::new();
        for e in plan.endpoints.iter() {
            let addr: SocketAddr = e.addr.parse().map_err(|_| format!("bad address {}", e.addr))?;
            addrs.push(addr);
            eps.push(EpRt { obj: EpObj::None, addr, ppm: e.clock_ppm, offset_ns: 0, inbox: VecDeque::new(), inbox_cap: usize::MAX, incarnations: 0 });
        }
        if eps.len() + 1 > alloc::MAX_DOMAINS {
            return Err("too many endpoints".into());
        }
        let mut heap = BinaryHeap::new();
        let mut seq = 0u64;
        for (i, t) in plan.timeline.iter().enumerate() {
            heap.push(HeapItem { t_ns: t.t_us * 1000, rank: t.rank, seq, kind: ItemKind::Timeline(i) });
            seq += 1;
        }
        Ok(Self {
            plan,
            opts,
            eps,
            addrs,
            heap,
            seq,
            now_ns: 0,
            call: 0,
            extra_ops: Vec::new(),
            repeat_ops: Vec::new(),
            deliveries: Vec::new(),
            rules: BTreeMap::new(),
            default_rule: LinkRule::default(),
            ordinals: BTreeMap::new(),
            fifo_last: BTreeMap::new(),
            applied: BTreeMap::new(),
            digest: Digest::new(),
            stats: Stats::default(),
            violation: None,
            panic: None,
            adversary,
            stop: false,
            ended_early: false,
            healed: false,
            pending_deliveries: 0,
            cur_rank: 0,
            busy_ops_left: plan.timeline.iter().filter(|t| !matches!(t.op, Op::Step { .. } | Op::Flush { .. } | Op::StepEvery { .. })).count(),
        })
    }

    fn local_ns(&self, ep: usize) -> u64 {
        let e = &self.eps[ep];
        ((self.now_ns as u128 * e.ppm as u128) / 1_000_000u128) as u64 + e.offset_ns
    }

    fn local_ms(&self, ep: usize) -> u64 {
        self.local_ns(ep) / 1_000_000
    }

    fn emit(&mut self, rec: Rec, oracles: &mut [Box<dyn Oracle>]) {
        self.digest_rec(&rec);
        let cx = Cx { plan: self.plan, addrs: &self.addrs, now_ns: self.now_ns };
        for o in oracles.iter_mut() {
            if let Some(v) = o.on(&rec, &cx) {
                if self.violation.is_none() {
                    self.violation = Some(v);
                    self.stop = true;
                }
            }
        }
    }

    fn digest_rec(&mut self, rec: &Rec) {
        let d = &mut self.digest;
        match rec {
            Rec::Call { call, t_ns, local_ms, ep, op, skipped, .. } => {
                d.word(1);
                d.word(*call);
                d.word(*t_ns);
                d.word(*local_ms);
                d.word(ep.map_or(u64::MAX, |e| e as u64));
                d.word(crate::rng::str_key(op.name()));
                d.word(*skipped as u64);
            }
            Rec::Submit { call, ep, ch, mode, tag, payload, accepted, .. } => {
                d.word(2);
                d.word(*call);
                d.word(*ep as u64);
                d.word(*ch as u64 | (*mode as u64) << 8 | (*accepted as u64) << 16);
                d.word(*tag as u64);
                d.word(payload.len() as u64);
            }
            Rec::Wire(w) => {
                d.word(3);
                d.word(w.call);
                d.word(w.src as u64);
                d.word(w.ord);
                d.bytes(&w.bytes);
                d.word(w.fate.copies.len() as u64);
                for c in w.fate.copies.iter() {
                    d.word(c.delay_us);
                    d.word(c.flips.len() as u64);
                }
            }
            Rec::Delivered { t_ns, dst, bytes, accepted, .. } => {
                d.word(4);
                d.word(*t_ns);
                d.word(*dst as u64);
                d.bytes(bytes);
                d.word(*accepted as u64);
            }
            Rec::Consumed { call, ep, bytes, .. } => {
                d.word(5);
                d.word(*call);
                d.word(*ep as u64);
                d.word(bytes.len() as u64);
            }
            Rec::Event { call, ep, peer, ev, .. } => {
                d.word(6);
                d.word(*call);
                d.word(*ep as u64);
                d.word(peer.map_or(u64::MAX, |e| e as u64));
                match ev {
                    AppEvent::Connect => d.word(100),
                    AppEvent::Disconnect => d.word(101),
                    AppEvent::Receive(p) => {
                        d.word(102);
                        d.bytes(p);
                    }
                    AppEvent::Error(k) => d.word(200 + *k as u64),
                }
            }
            Rec::Trace { call, ep, hc, ev } => {
                d.word(7);
                d.word(*call);
                d.word(*ep as u64);
                d.word(*hc);
                d.word(crate::rng::str_key(&format!("{:?}", ev)));
            }
            Rec::ApiSize { call, ep, size, .. } => {
                d.word(12);
                d.word(*call);
                d.word(*ep as u64);
                d.word(*size);
            }
            Rec::Probe { call, ep, probe, .. } => {
                d.word(8);
                d.word(*call);
                d.word(*ep as u64);
                match probe {
                    Probe::Hc(p) => {
                        d.word(p.tx_packet_base_id as u64 | (p.tx_packet_next_id as u64) << 32);
                        d.word(p.tx_frame_next_id as u64 | (p.tx_frame_window_base_id as u64) << 32);
                        d.word(p.rx_packet_base_id as u64 | (p.rx_frame_base_id as u64) << 32);
                        d.word(p.send_rate as u64);
                        d.word(p.flush_alloc as u64);
                        d.word(p.tx_total_size as u64);
                    }
                    Probe::Client(p) => {
                        d.word(p.state as u64);
                        if let Some(h) = &p.hc {
                            d.word(h.send_rate as u64);
                            d.word(h.tx_total_size as u64);
                        }
                    }
                    Probe::Server(p) => {
                        d.word(p.clients_len as u64 | (p.active_clients_len as u64) << 20 | (p.timer_queue_len as u64) << 40);
                        for c in p.clients.iter() {
                            d.word(c.state as u64);
                        }
                    }
                    Probe::Rate(r) => {
                        d.word(r.send_rate as u64 | (r.mode as u64) << 32);
                        d.word(r.rtt_s.map_or(0, |x| x.to_bits()));
                    }
                    Probe::None => d.word(0),
                }
            }
            Rec::CallEnd { call, panic, .. } => {
                d.word(9);
                d.word(*call);
                d.word(panic.is_some() as u64);
            }
            Rec::End { t_ns } => {
                d.word(10);
                d.word(*t_ns);
            }
            Rec::Teardown { live, live_blocks, zero_size, mismatches } => {
                d.word(11);
                for l in live.iter().chain(live_blocks.iter()) {
                    d.word(*l as u64);
                }
                d.word(*zero_size);
                d.word(*mismatches);
            }
        }
    }

    fn rule_for(&self, from: usize, to: usize) -> &LinkRule {
        self.rules.get(&(from, to)).unwrap_or(&self.default_rule)
    }

    fn draw_fate(&mut self, from: usize, to: usize, ord: u64, bytes: &[u8], fate_seed: u64) -> Fate {
        let rule = self.rule_for(from, to).clone();
        let mut r = Rng::keyed(&[fate_seed, from as u64, to as u64, ord]);
        let ty = bytes.first().copied().unwrap_or(255);
        if rule.blackout {
            self.stats.blackout_dropped += 1;
            return Fate::dropped();
        }
        if rule.drop_types != 0 && ty < 32 && rule.drop_types & (1 << ty) != 0 && r.chance(rule.drop_types_p) {
            self.stats.type_dropped += 1;
            return Fate::dropped();
        }
        if r.chance(rule.drop_p) {
            self.stats.dropped += 1;
            return Fate::dropped();
        }
        let mut delay = |r: &mut Rng, stats: &mut Stats| {
            let mut d = rule.latency_us + if rule.jitter_us > 0 { r.below(rule.jitter_us + 1) } else { 0 };
            if rule.reorder_p > 0.0 && r.chance(rule.reorder_p) {
                d += r.below(rule.reorder_us + 1);
                stats.delayed += 1;
            }
            d
        };
        let mut copies = vec![FateCopy { delay_us: delay(&mut r, &mut self.stats), flips: Vec::new(), trunc: None, replace: None }];
        if r.chance(rule.dup_p) {
            self.stats.duplicated += 1;
            let n = 1 + r.below(3);
            for _ in 0..n {
                // a copy shortly after the original is the interesting case (stale-ack handling)
                let extra = if r.chance(0.6) { r.range(1, 40_000) } else { r.range(1, 3_000_000) };
                copies.push(FateCopy { delay_us: copies[0].delay_us + extra, flips: Vec::new(), trunc: None, replace: None });
            }
        }
        if r.chance(rule.flip_p) {
            self.stats.flipped += 1;
            let n = r.range(1, 4);
            let idx = r.below(copies.len() as u64) as usize;
            let nbits = (bytes.len() * 8).max(1) as u64;
            let mut flips: Vec<u32> = Vec::new();
            while flips.len() < n as usize {
                let b = r.below(nbits) as u32;
                if !flips.contains(&b) {
                    flips.push(b);
                }
                if nbits < 4 {
                    break;
                }
            }
            copies[idx].flips = flips;
        }
        if r.chance(rule.garble_p) {
            self.stats.garbled += 1;
            let idx = r.below(copies.len() as u64) as usize;
            if r.chance(0.5) && bytes.len() > 1 {
                copies[idx].trunc = Some(r.below(bytes.len() as u64) as u32);
            } else {
                let nbits = (bytes.len() * 8).max(1) as u64;
                let n = r.range(5, 40);
                copies[idx].flips = (0..n).map(|_| r.below(nbits) as u32).collect();
            }
        }
        Fate { copies }
    }

    fn route(&mut self, call: u64, src: usize, dst_addr: SocketAddr, bytes: Vec<u8>, failed: bool, oracles: &mut [Box<dyn Oracle>]) {
        self.stats.datagrams += 1;
        let dst = self.addrs.iter().position(|a| *a == dst_addr);
        let bytes = Rc::new(bytes);
        let local_ms = self.local_ms(src);
        let local_ns = self.local_ns(src);
        let Some(dst_ep) = dst else {
            self.stats.no_socket += 1;
            let w = WireRec { call, t_ns: self.now_ns, local_ms, local_ns, src, dst: None, dst_addr, bytes, ord: 0, fate: Fate::dropped(), arrivals_ns: Vec::new() };
            self.emit(Rec::Wire(w), oracles);
            return;
        };
        let ord = {
            let o = self.ordinals.entry((src, dst_ep)).or_insert(0);
            let v = *o;
            *o += 1;
            v
        };
        let lname = link_name(src, dst_ep);
        // after the `heal` mark the network is fair by definition of the scenario: recorded or
        // drawn faults no longer apply (this keeps minimised plans, whose datagram ordinals have
        // shifted, inside the scenario's assumptions)
        let fair = self.healed && self.plan.param("fair_after_heal", 1.0) != 0.0;
        // a send call that was made to fail: to the endpoint's peer, and to every oracle, a
        // datagram that was sent and lost (the endpoint also saw an error, which it may ignore)
        let fate = if failed {
            self.stats.sock_errors += 1;
            Fate::dropped()
        } else if fair {
            Fate::deliver(self.rule_for(src, dst_ep).latency_us)
        } else if let Some(f) = self.plan.fates.get(&lname).and_then(|m| m.get(&ord)) {
            f.clone()
        } else if let Some(fs) = self.plan.fate_seed {
            self.draw_fate(src, dst_ep, ord, &bytes, fs)
        } else {
            Fate::deliver(self.rule_for(src, dst_ep).latency_us)
        };
        let mut fate = fate;
        // a middlebox that rewrites frames is a fault like any other: none after the heal
        if let Some(mut adv) = if fair || failed { None } else { self.adversary.take() } {
            if let Some(newbytes) = adv.rewrite(src, dst_ep, &bytes, &fate, self.plan) {
                if let Some(c) = fate.copies.iter_mut().find(|c| c.flips.is_empty() && c.trunc.is_none() && c.replace.is_none()) {
                    c.replace = Some(newbytes);
                    self.stats.rewritten += 1;
                }
            }
            self.adversary = Some(adv);
        }
        if self.opts.materialise {
            self.applied.entry(lname).or_default().insert(ord, fate.clone());
        }
        let fifo = self.rule_for(src, dst_ep).fifo;
        let src_addr = self.addrs[src];
        let mut arrivals_ns = Vec::new();
        for c in fate.copies.iter() {
            let mut data: Rc<Vec<u8>> = bytes.clone();
            if let Some(rb) = &c.replace {
                data = Rc::new(rb.clone());
            } else if !c.flips.is_empty() || c.trunc.is_some() {
                let mut v = (*bytes).clone();
                if let Some(t) = c.trunc {
                    v.truncate(t as usize);
                }
                let nbits = v.len() * 8;
                if nbits > 0 {
                    for &b in c.flips.iter() {
                        let b = b as usize % nbits;
                        v[b / 8] ^= 1 << (b % 8);
                    }
                }
                // by-product reach counter: does the codec reject 1..4-bit corruption?
                if c.trunc.is_none() && (1..=4).contains(&c.flips.len()) && v != *bytes {
                    if uv::Frame::read(&v).is_some() {
                        self.stats.crc_missed += 1;
                    } else {
                        self.stats.crc_rejected += 1;
                    }
                }
                // damage beyond the CRC's guaranteed range (more than 4 flipped bits, truncation)
                // slips through a 32-bit check once in 2^32 times: such a copy is withheld, so
                // that no oracle ever blames uflow for what the checksum cannot see
                if (c.trunc.is_some() || c.flips.len() > 4) && v != *bytes && uv::Frame::read(&v).is_some() {
                    self.stats.crc_missed += 1;
                    continue;
                }
                data = Rc::new(v);
            }
            let mut t = self.now_ns + c.delay_us * 1000;
            if fifo {
                let last = self.fifo_last.entry((src, dst_ep)).or_insert(0);
                if t < *last {
                    t = *last;
                }
                *last = t;
            }
            arrivals_ns.push(t);
            let idx = self.deliveries.len();
            self.deliveries.push(Some(PendingDelivery { dst: dst_ep, src_addr, src: Some(src), bytes: data }));
            self.pending_deliveries += 1;
            self.heap.push(HeapItem { t_ns: t, rank: DELIVER_RANK, seq: self.seq, kind: ItemKind::Deliver(idx) });
            self.seq += 1;
        }
        let w = WireRec { call, t_ns: self.now_ns, local_ms, local_ns, src, dst: Some(dst_ep), dst_addr, bytes, ord, fate, arrivals_ns };
        if let Some(mut adv) = if failed { None } else { self.adversary.take() } {
            let mut out = Vec::new();
            adv.on_wire(&w, self.now_ns / 1000, self.plan, &mut out);
            self.adversary = Some(adv);
            self.schedule_extra(out);
        }
        self.emit(Rec::Wire(w), oracles);
    }

    fn schedule_extra(&mut self, ops: Vec<TimedOp>) {
        for mut op in ops {
            if op.t_us * 1000 < self.now_ns {
                op.t_us = (self.now_ns + 999) / 1000;
            }
            // an operation scheduled for the current instant runs after the current one, in
            // search mode and in replay alike (ties in (time, rank) keep creation order)
            if op.t_us * 1000 == self.now_ns && op.rank < self.cur_rank {
                op.rank = self.cur_rank;
            }
            let idx = self.extra_ops.len();
            if !matches!(op.op, Op::Step { .. } | Op::Flush { .. } | Op::StepEvery { .. }) {
                self.busy_ops_left += 1;
            }
            self.heap.push(HeapItem { t_ns: op.t_us * 1000, rank: op.rank, seq: self.seq, kind: ItemKind::Extra(idx) });
            self.seq += 1;
            self.extra_ops.push(op);
        }
    }

    fn deliver(&mut self, d: PendingDelivery, injected: bool, oracles: &mut [Box<dyn Oracle>]) {
        let dst = d.dst;
        let accepted;
        match self.eps[dst].obj {
            EpObj::None | EpObj::Rate(_) => {
                accepted = false;
                self.stats.no_socket += 1;
            }
            EpObj::Hc(_) | EpObj::Raw => {
                if self.eps[dst].inbox.len() >= self.eps[dst].inbox_cap {
                    accepted = false;
                    self.stats.inbox_overflow += 1;
                } else {
                    self.eps[dst].inbox.push_back((d.src_addr, d.bytes.clone()));
                    accepted = true;
                }
            }
            EpObj::Client(_) | EpObj::Server(_) => {
                let r = uv::net::sim::deliver(self.eps[dst].addr, d.src_addr, (*d.bytes).clone());
                match r {
                    uv::net::DeliverResult::Delivered => {
                        self.eps[dst].inbox.push_back((d.src_addr, d.bytes.clone()));
                        accepted = true;
                    }
                    uv::net::DeliverResult::InboxFull => {
                        accepted = false;
                        self.stats.inbox_overflow += 1;
                    }
                    uv::net::DeliverResult::NoSocket => {
                        accepted = false;
                        self.stats.no_socket += 1;
                    }
                }
            }
        }
        self.emit(
            Rec::Delivered { t_ns: self.now_ns, dst, src_addr: d.src_addr, src: d.src, bytes: d.bytes, accepted, injected },
            oracles,
        );
    }

    fn probe(&self, ep: usize) -> Probe {
        match &self.eps[ep].obj {
            EpObj::Hc(hc) => Probe::Hc(hc.verif_probe()),
            EpObj::Client(c) => Probe::Client(c.verif_probe()),
            EpObj::Server(s) => Probe::Server(s.verif_probe()),
            EpObj::Rate(r) => Probe::Rate(RateProbe { send_rate: r.verif_send_rate(), max_send_rate: r.verif_max_send_rate(), rtt_s: r.rtt_s(), mode: r.verif_mode_tag(), nofeedback_exp_ms: r.verif_nofeedback_exp_ms() }),
            _ => Probe::None,
        }
    }

    /// Runs `f` as a guarded call into endpoint `ep`: clock, random stream, heap domain, watchdog,
    /// catch_unwind; then announces everything it produced.
    fn guarded<F>(&mut self, ep: usize, op: &Op, oracles: &mut [Box<dyn Oracle>], f: F)
    where
        F: FnOnce(&mut EpRt, &mut CallOut),
    {
        self.call += 1;
        self.stats.calls += 1;
        let call = self.call;
        if let Some((k, path)) = self.opts.dump_before_call.clone() {
            if k == call {
                let m = self.materialised_plan();
                let _ = m.save(&path);
            }
        }
        let local_ns = self.local_ns(ep);
        let local_ms = local_ns / 1_000_000;
        self.emit(Rec::Call { call, t_ns: self.now_ns, local_ms, local_ns, ep: Some(ep), op: op.clone(), skipped: false }, oracles);
        if self.stop {
            return;
        }
        uv::time::set_now_ns(local_ns);
        uv::rand::select(ep);
        let mut out = CallOut::default();
        let prev_domain = alloc::set_domain(ep + 1);
        watchdog::enter(call);
        let result = {
            let e = &mut self.eps[ep];
            catch_unwind(AssertUnwindSafe(|| f(e, &mut out)))
        };
        watchdog::leave();
        // outbox of the simulated sockets (World B)
        let outgoing = uv::net::sim::drain_outbox();
        let trace = uv::trace::drain();
        alloc::set_domain(prev_domain);

        let panic = match result {
            Ok(()) => None,
            Err(_) => Some(take_panic()),
        };

        for (hc, ev) in trace {
            self.emit(Rec::Trace { call, ep, hc, ev }, oracles);
        }
        // what the endpoint read from its inbox
        let consumed: Vec<(SocketAddr, Rc<Vec<u8>>)> = match self.eps[ep].obj {
            EpObj::Client(_) | EpObj::Server(_) => {
                let left = uv::net::sim::inbox_len(self.eps[ep].addr);
                let mut v = Vec::new();
                while self.eps[ep].inbox.len() > left {
                    v.push(self.eps[ep].inbox.pop_front().unwrap());
                }
                v
            }
            _ => std::mem::take(&mut out.consumed_hc),
        };
        for (src_addr, bytes) in consumed {
            let src = self.addrs.iter().position(|a| *a == src_addr);
            self.emit(Rec::Consumed { call, ep, src_addr, src, bytes }, oracles);
        }
        for o in outgoing {
            let src = self.addrs.iter().position(|a| *a == o.src).unwrap_or(ep);
            self.route(call, src, o.dst, o.bytes, o.failed, oracles);
        }
        for (dst, bytes) in std::mem::take(&mut out.frames) {
            self.route(call, ep, dst, bytes, false, oracles);
        }
        let mut echoes: Vec<(Option<SocketAddr>, Rc<Vec<u8>>)> = Vec::new();
        for (peer_addr, ev) in std::mem::take(&mut out.events) {
            self.stats.events_app += 1;
            if let AppEvent::Receive(p) = &ev {
                self.stats.packets_delivered += 1;
                if self.plan.endpoints[ep].echo {
                    echoes.push((peer_addr, p.clone()));
                }
            }
            let peer = peer_addr.and_then(|a| self.addrs.iter().position(|x| *x == a));
            self.emit(Rec::Event { call, t_ns: self.now_ns, local_ms, local_ns, ep, peer, peer_addr, ev }, oracles);
        }
        let probe = self.probe(ep);
        let heap_live = alloc::live(ep + 1);
        if let Some(mut adv) = self.adversary.take() {
            let mut extra = Vec::new();
            adv.on_call_end(call, Some(ep), &probe, self.now_ns / 1000, self.plan, &mut extra);
            self.adversary = Some(adv);
            self.schedule_extra(extra);
        }
        // the public queries of an established connection, as an application would make them
        let mut api: Vec<(Option<SocketAddr>, u64)> = Vec::new();
        if panic.is_none() {
            match (&self.eps[ep].obj, &probe) {
                (EpObj::Client(c), Probe::Client(p)) if p.state == 1 => api.push((None, c.send_buffer_size() as u64)),
                (EpObj::Server(sv), Probe::Server(p)) => {
                    for rc in p.clients.iter().filter(|c| c.state == 1) {
                        if let Some(h) = sv.client(&rc.address) {
                            api.push((Some(rc.address), h.borrow().send_buffer_size() as u64));
                        }
                    }
                }
                _ => (),
            }
        }
        self.emit(Rec::Probe { call, t_ns: self.now_ns, ep, probe, heap_live }, oracles);
        for (peer_addr, size) in api {
            self.emit(Rec::ApiSize { call, ep, peer_addr, size }, oracles);
        }
        if let Some(p) = &panic {
            if !self.opts.panics_are_records {
                self.panic = Some((p.clone(), call, op.name().to_string()));
                self.stop = true;
            }
            // the object may be in an inconsistent state: forget it without running destructors
            let obj = std::mem::replace(&mut self.eps[ep].obj, EpObj::None);
            std::mem::forget(obj);
        }
        self.emit(Rec::CallEnd { call, ep: Some(ep), panic }, oracles);

        // echo application: answer every received packet
        for (peer_addr, payload) in echoes {
            if self.stop {
                break;
            }
            let to = peer_addr.and_then(|a| self.addrs.iter().position(|x| *x == a));
            self.do_send(ep, to, 0, MODE_RELIABLE, 0, payload, true, oracles);
        }
    }

    fn harness_op(&mut self, op: &Op, skipped: bool, oracles: &mut [Box<dyn Oracle>]) {
        self.call += 1;
        let call = self.call;
        if skipped {
            self.stats.skipped_ops += 1;
        }
        let ep = op.ep();
        let local_ms = ep.map_or(0, |e| self.local_ms(e));
        let local_ns = ep.map_or(0, |e| self.local_ns(e));
        self.emit(Rec::Call { call, t_ns: self.now_ns, local_ms, local_ns, ep, op: op.clone(), skipped }, oracles);
        self.emit(Rec::CallEnd { call, ep, panic: None }, oracles);
    }

    fn do_send(&mut self, ep: usize, to: Option<usize>, ch: u8, mode: u8, tag: u32, payload: Rc<Vec<u8>>, echo: bool, oracles: &mut [Box<dyn Oracle>]) {
        let op = Op::Send { ep, to, ch, mode, len: payload.len() as u32, tag };
        // preconditions of send(): skip operations the API forbids
        let ok = match (&self.eps[ep].obj, &self.plan.endpoints[ep].kind) {
            // a packet larger than the peer's advertised allocation is legal to submit: the
            // sender discards it at once (it is never accepted, see `accepted` below)
            (EpObj::Hc(_), EndpointKind::Hc { .. }) => payload.len() <= uflow::MAX_PACKET_SIZE && (ch as usize) < uflow::CHANNEL_COUNT,
            (EpObj::Client(_), EndpointKind::Client { cfg, .. }) => (payload.len() as u64) <= cfg.max_packet_size && (ch as usize) < uflow::CHANNEL_COUNT,
            (EpObj::Server(s), EndpointKind::Server { cfg, .. }) => {
                (payload.len() as u64) <= cfg.max_packet_size
                    && (ch as usize) < uflow::CHANNEL_COUNT
                    && to.map_or(false, |t| s.client(&self.addrs[t]).is_some())
            }
            _ => false,
        };
        if !ok {
            self.harness_op(&op, true, oracles);
            return;
        }
        let accepted = match self.probe(ep) {
            Probe::Hc(_) => match &self.plan.endpoints[ep].kind {
                EndpointKind::Hc { spec, .. } => (payload.len() as u64) <= ceil_fragment(spec.tx_alloc_limit),
                _ => true,
            },
            Probe::Client(p) => p.state <= 1,
            Probe::Server(p) => to.map_or(false, |t| p.clients.iter().any(|c| c.address == self.addrs[t] && c.state == 1)),
            Probe::Rate(_) | Probe::None => false,
        };
        let to_addr = to.map(|t| self.addrs[t]);
        let call_next = self.call + 1;
        self.emit(Rec::Submit { call: call_next, ep, to, ch, mode, tag, payload: payload.clone(), accepted, echo }, oracles);
        let data: Box<[u8]> = payload.as_slice().into();
        self.guarded(ep, &op, oracles, move |e, _out| match &mut e.obj {
            EpObj::Hc(hc) => hc.send(data, ch, send_mode(mode)),
            EpObj::Client(c) => c.send(data, ch as usize, send_mode(mode)),
            EpObj::Server(s) => {
                if let Some(rc) = s.client(&to_addr.unwrap()) {
                    rc.borrow_mut().send(data, ch as usize, send_mode(mode));
                }
            }
            _ => (),
        });
    }

    fn exec_op(&mut self, op: &Op, oracles: &mut [Box<dyn Oracle>]) {
        match op {
            Op::Create { ep } => {
                let ep = *ep;
                if !matches!(self.eps[ep].obj, EpObj::None) {
                    self.harness_op(op, true, oracles);
                    return;
                }
                let spec = self.plan.endpoints[ep].clone();
                let addrs = self.addrs.clone();
                self.guarded(ep, op, oracles, move |e, _out| {
                    // steered nonces apply to the first incarnation only: a restarted endpoint
                    // draws fresh random nonces, as a real one would
                    if e.incarnations == 0 {
                        for n in spec.nonces.iter() {
                            uv::rand::force_next_u32(*n);
                        }
                    }
                    e.incarnations += 1;
                    match &spec.kind {
                        EndpointKind::Hc { spec, .. } => {
                            e.obj = EpObj::Hc(Box::new(uv::HalfConnection::new(to_hc_cfg(spec))));
                        }
                        EndpointKind::Client { cfg, server } => {
                            uv::net::sim::push_ephemeral_addr(e.addr);
                            let c = uflow::client::Client::connect(addrs[*server], uflow::client::Config { endpoint_config: to_uflow_cfg(cfg) })
                                .expect("simulated connect failed");
                            e.obj = EpObj::Client(Box::new(c));
                        }
                        EndpointKind::Server { cfg, max_total, max_active, handshake_errors } => {
                            let s = uflow::server::Server::bind(
                                e.addr,
                                uflow::server::Config {
                                    max_total_connections: *max_total as usize,
                                    max_active_connections: *max_active as usize,
                                    enable_handshake_errors: *handshake_errors,
                                    endpoint_config: to_uflow_cfg(cfg),
                                },
                            )
                            .expect("simulated bind failed");
                            e.obj = EpObj::Server(Box::new(s));
                        }
                        EndpointKind::Raw => {
                            e.obj = EpObj::Raw;
                        }
                        EndpointKind::Rate { max_send_rate } => {
                            e.obj = EpObj::Rate(Box::new(uv::SendRateComp::new(*max_send_rate)));
                        }
                    }
                    e.inbox.clear();
                });
            }
            Op::Destroy { ep } => {
                let ep = *ep;
                if matches!(self.eps[ep].obj, EpObj::None) {
                    self.harness_op(op, true, oracles);
                    return;
                }
                self.stats.crashes += 1;
                self.guarded(ep, op, oracles, |e, _out| {
                    e.obj = EpObj::None;
                    e.inbox.clear();
                });
            }
            Op::Step { ep } => {
                let ep = *ep;
                match self.eps[ep].obj {
                    EpObj::None => self.harness_op(op, true, oracles),
                    EpObj::Raw => {
                        // raw sockets just read their inbox
                        self.guarded(ep, op, oracles, |e, out| {
                            out.consumed_hc = e.inbox.drain(..).collect();
                        });
                    }
                    _ => {
                        let peer_addr = match &self.plan.endpoints[ep].kind {
                            EndpointKind::Hc { peer, .. } => Some(self.addrs[*peer]),
                            _ => None,
                        };
                        // an application may drop the iterator step() returns before it is
                        // exhausted (only scenarios that set the parameter do)
                        let partial = self.plan.param("partial_events_permille", 0.0) as u64;
                        let k = key(&[self.plan.seed, self.plan.run, self.call + 1, 0x7061_7274]);
                        let take = if partial > 0 && k % 1000 < partial { ((k >> 20) % 3) as usize } else { usize::MAX };
                        // a lazy reader (World A, only scenarios that set the parameter): the
                        // embedding application handles frames, steps and flushes, but collects
                        // received packets only in some of its turns
                        let lazy = self.plan.param("hc_lazy_reader_permille", 0.0) as u64;
                        let read = !(lazy > 0 && (k >> 32) % 1000 < lazy);
                        self.guarded(ep, op, oracles, move |e, out| match &mut e.obj {
                            EpObj::Hc(hc) => hc_step(hc, &mut e.inbox, peer_addr.unwrap(), out, read),
                            EpObj::Client(c) => {
                                for ev in c.step().take(take) {
                                    out.events.push((None, client_event(ev)));
                                }
                            }
                            EpObj::Server(s) => {
                                for ev in s.step().take(take) {
                                    let (a, ev) = server_event(ev);
                                    out.events.push((Some(a), ev));
                                }
                            }
                            _ => (),
                        });
                    }
                }
            }
            Op::StepEvery { ep, period_us, until_us } => {
                self.exec_op(&Op::Step { ep: *ep }, oracles);
                let next_us = self.now_ns / 1000 + (*period_us).max(1);
                if next_us < *until_us {
                    let idx = self.repeat_ops.len();
                    self.repeat_ops.push(TimedOp { t_us: next_us, rank: 0x7000_0000 + *ep as u32, op: op.clone() });
                    self.heap.push(HeapItem { t_ns: next_us * 1000, rank: 0x7000_0000 + *ep as u32, seq: self.seq, kind: ItemKind::Repeat(idx) });
                    self.seq += 1;
                }
            }
            Op::Flush { ep } => {
                let ep = *ep;
                match self.eps[ep].obj {
                    EpObj::None | EpObj::Raw => self.harness_op(op, true, oracles),
                    _ => {
                        let peer_addr = match &self.plan.endpoints[ep].kind {
                            EndpointKind::Hc { peer, .. } => Some(self.addrs[*peer]),
                            _ => None,
                        };
                        self.guarded(ep, op, oracles, move |e, out| match &mut e.obj {
                            EpObj::Hc(hc) => {
                                let mut sink = VecFrameSink { frames: Vec::new() };
                                hc.flush(&mut sink);
                                for f in sink.frames {
                                    out.frames.push((peer_addr.unwrap(), f));
                                }
                            }
                            EpObj::Client(c) => c.flush(),
                            EpObj::Server(s) => s.flush(),
                            _ => (),
                        });
                    }
                }
            }
            Op::Send { ep, to, ch, mode, len, tag } => {
                if matches!(self.eps[*ep].obj, EpObj::None | EpObj::Raw) {
                    self.harness_op(op, true, oracles);
                    return;
                }
                let payload = Rc::new(make_payload(*ep, *ch, *mode, *len, *tag));
                self.do_send(*ep, *to, *ch, *mode, *tag, payload, false, oracles);
            }
            Op::SendBurst { ep, to, len, tag, count } => {
                if matches!(self.eps[*ep].obj, EpObj::None | EpObj::Raw) {
                    self.harness_op(op, true, oracles);
                    return;
                }
                for i in 0..*count {
                    if self.stop {
                        break;
                    }
                    let t = tag.wrapping_add(i);
                    let ch = (t % 4) as u8;
                    let mode = [MODE_UNRELIABLE, MODE_RELIABLE, MODE_PERSISTENT][(t % 3) as usize];
                    let payload = Rc::new(make_payload(*ep, ch, mode, *len, t));
                    self.do_send(*ep, *to, ch, mode, t, payload, false, oracles);
                }
            }
            Op::Disconnect { ep, to } | Op::DisconnectNow { ep, to } => {
                let now = matches!(op, Op::DisconnectNow { .. });
                let ep = *ep;
                let to_addr = to.map(|t| self.addrs[t]);
                let ok = match &self.eps[ep].obj {
                    EpObj::Client(_) => true,
                    EpObj::Server(s) => to_addr.map_or(false, |a| s.client(&a).is_some()),
                    _ => false,
                };
                if !ok {
                    self.harness_op(op, true, oracles);
                    return;
                }
                self.guarded(ep, op, oracles, move |e, _out| match &mut e.obj {
                    EpObj::Client(c) => {
                        if now {
                            c.disconnect_now()
                        } else {
                            c.disconnect()
                        }
                    }
                    EpObj::Server(s) => {
                        if let Some(rc) = s.client(&to_addr.unwrap()) {
                            if now {
                                rc.borrow_mut().disconnect_now()
                            } else {
                                rc.borrow_mut().disconnect()
                            }
                        }
                    }
                    _ => (),
                });
            }
            Op::ServerDrop { ep, to } => {
                let ep = *ep;
                let to_addr = self.addrs[*to];
                if !matches!(self.eps[ep].obj, EpObj::Server(_)) {
                    self.harness_op(op, true, oracles);
                    return;
                }
                self.guarded(ep, op, oracles, move |e, _out| {
                    if let EpObj::Server(s) = &mut e.obj {
                        uflow::server::Server::drop(s, &to_addr);
                    }
                });
            }
            Op::Link { from, to, rule } => {
                match (from, to) {
                    (Some(f), Some(t)) => {
                        self.rules.insert((*f, *t), rule.clone());
                    }
                    (Some(f), None) => {
                        for t in 0..self.eps.len() {
                            self.rules.insert((*f, t), rule.clone());
                        }
                    }
                    (None, Some(t)) => {
                        for f in 0..self.eps.len() {
                            self.rules.insert((f, *t), rule.clone());
                        }
                    }
                    (None, None) => {
                        self.rules.clear();
                        self.default_rule = rule.clone();
                    }
                }
                self.harness_op(op, false, oracles);
            }
            Op::ClockJump { ep, us } => {
                self.eps[*ep].offset_ns += us * 1000;
                self.stats.clock_jumps += 1;
                self.harness_op(op, false, oracles);
            }
            Op::Inject { to, from, bytes, .. } => {
                self.stats.injected += 1;
                self.harness_op(op, false, oracles);
                let d = PendingDelivery { dst: *to, src_addr: self.addrs[*from], src: Some(*from), bytes: Rc::new(bytes.clone()) };
                self.deliver(d, true, oracles);
            }
            Op::SockErr { ep, recv, send } => {
                uv::net::sim::set_recv_errors(self.eps[*ep].addr, *recv);
                uv::net::sim::set_send_errors(self.eps[*ep].addr, *send);
                self.harness_op(op, false, oracles);
            }
            Op::SockCap { ep, cap } => {
                self.eps[*ep].inbox_cap = *cap as usize;
                uv::net::sim::set_inbox_capacity(self.eps[*ep].addr, *cap as usize);
                self.harness_op(op, false, oracles);
            }
            Op::Mark { .. } => {
                self.harness_op(op, false, oracles);
            }
            Op::RateSent { ep } => {
                if !matches!(self.eps[*ep].obj, EpObj::Rate(_)) {
                    self.harness_op(op, true, oracles);
                    return;
                }
                let now_ms = self.local_ms(*ep);
                self.guarded(*ep, op, oracles, move |e, _out| {
                    if let EpObj::Rate(r) = &mut e.obj {
                        r.notify_frame_sent(now_ms);
                    }
                });
            }
            Op::RateStep { ep, fb } => {
                if !matches!(self.eps[*ep].obj, EpObj::Rate(_)) {
                    self.harness_op(op, true, oracles);
                    return;
                }
                let now_ms = self.local_ms(*ep);
                let fb = *fb;
                self.guarded(*ep, op, oracles, move |e, _out| {
                    if let EpObj::Rate(r) = &mut e.obj {
                        let feedback = fb.map(|(rtt_ms, receive_rate, loss_rate, rate_limited)| uv::FeedbackData { rtt_ms, receive_rate, loss_rate, rate_limited });
                        r.step(now_ms, feedback, |_p: f64| ());
                    }
                });
            }
        }
    }

    fn exec_counted(&mut self, op: &Op, oracles: &mut [Box<dyn Oracle>]) {
        if !matches!(op, Op::Step { .. } | Op::Flush { .. } | Op::StepEvery { .. }) {
            self.busy_ops_left = self.busy_ops_left.saturating_sub(1);
        }
        if let Op::Mark { name } = op {
            if name == "heal" {
                self.healed = true;
                // the fair phase has no failing socket calls and no undersized buffers either
                for e in self.eps.iter_mut() {
                    e.inbox_cap = usize::MAX;
                    uv::net::sim::set_recv_errors(e.addr, 0);
                    uv::net::sim::set_send_errors(e.addr, 0);
                    uv::net::sim::set_inbox_capacity(e.addr, usize::MAX);
                }
            }
        }
        self.exec_op(op, oracles);
    }

    /// Nothing left to do: every sender's buffer is empty (everything acknowledged), nothing is
    /// queued anywhere and no datagram is in flight.
    fn is_quiescent(&self) -> bool {
        if self.pending_deliveries > 0 {
            return false;
        }
        for ep in 0..self.eps.len() {
            if !self.eps[ep].inbox.is_empty() {
                return false;
            }
            let q = |h: &uv::HcProbe| h.tx_total_size == 0 && h.send_queue_len == 0 && h.pending_queue_len == 0 && h.resend_queue_len == 0 && h.ack_queue_len == 0 && !h.sync_reply;
            match self.probe(ep) {
                Probe::Hc(h) => {
                    if !q(&h) {
                        return false;
                    }
                }
                Probe::Client(c) => {
                    // a handshake in progress (possibly with packets queued behind it) is not rest
                    if c.state == 0 {
                        return false;
                    }
                    if let Some(h) = &c.hc {
                        if !q(h) {
                            return false;
                        }
                    }
                }
                Probe::Server(s) => {
                    for c in s.clients.iter() {
                        if let Some(h) = &c.hc {
                            if !q(h) {
                                return false;
                            }
                        }
                    }
                }
                Probe::Rate(_) | Probe::None => (),
            }
        }
        true
    }

    fn materialised_plan(&self) -> Plan {
        let mut p = self.plan.clone();
        p.fate_seed = None;
        p.adversary = String::new();
        p.fates = self.applied.clone();
        for op in self.extra_ops.iter() {
            p.timeline.push(op.clone());
        }
        p.sort();
        p
    }

    pub fn run(mut self, oracles: &mut [Box<dyn Oracle>]) -> RunOutcome {
        uv::net::sim::reset();
        uv::trace::reset();
        uv::rand::reset(key(&[self.plan.seed, self.plan.run, 0x6e6f6e6365]), self.eps.len().max(1));
        uv::time::set_now_ns(0);
        // window knob (hook H10): real Client/Server pairs with windows smaller than 4096
        let (fw, pw) = (self.plan.param("b_frame_window", 0.0) as u32, self.plan.param("b_packet_window", 0.0) as u32);
        uv::knobs::set_windows(if fw > 0 && pw > 0 { Some((fw, pw)) } else { None });
        let end_ns = self.plan.end_us * 1000;
        let end_when_quiescent = self.plan.param("end_when_quiescent", 0.0) != 0.0;

        while let Some(item) = self.heap.pop() {
            if self.stop {
                break;
            }
            if item.t_ns > end_ns {
                break;
            }
            self.now_ns = item.t_ns;
            self.cur_rank = item.rank;
            match item.kind {
                ItemKind::Timeline(i) => {
                    let op = self.plan.timeline[i].op.clone();
                    self.exec_counted(&op, oracles);
                }
                ItemKind::Extra(i) => {
                    let op = self.extra_ops[i].op.clone();
                    self.exec_counted(&op, oracles);
                }
                ItemKind::Repeat(i) => {
                    let op = self.repeat_ops[i].op.clone();
                    self.exec_counted(&op, oracles);
                }
                ItemKind::Deliver(i) => {
                    if let Some(d) = self.deliveries[i].take() {
                        self.pending_deliveries -= 1;
                        self.deliver(d, false, oracles);
                    }
                }
            }
            if end_when_quiescent && self.healed && self.busy_ops_left == 0 && !self.stop && self.is_quiescent() {
                self.ended_early = true;
                break;
            }
        }
        if !self.stop {
            if self.now_ns < end_ns && !self.ended_early {
                self.now_ns = end_ns;
            }
            self.emit(Rec::End { t_ns: self.now_ns }, oracles);
        }
        self.stats.sim_us = self.now_ns / 1000;
        self.stats.sock_errors += uv::net::sim::recv_failures();

        // teardown: drop every endpoint object inside its own accounting domain
        let materialised = if self.opts.materialise { Some(self.materialised_plan()) } else { None };
        let n = self.eps.len();
        if self.panic.is_none() {
            for ep in 0..n {
                let prev = alloc::set_domain(ep + 1);
                let obj = std::mem::replace(&mut self.eps[ep].obj, EpObj::None);
                let r = catch_unwind(AssertUnwindSafe(move || drop(obj)));
                self.eps[ep].inbox.clear();
                alloc::set_domain(prev);
                if r.is_err() && self.panic.is_none() {
                    self.panic = Some((take_panic(), self.call, "teardown".to_string()));
                }
            }
            self.deliveries.clear();
            let _ = uv::net::sim::drain_outbox();
            let _ = uv::trace::drain();
            uv::net::sim::reset();
            uv::rand::reset(0, 1);
        }
        uv::knobs::set_windows(None);
        RunOutcome {
            digest: self.digest.finish(),
            violation: self.violation,
            panic: self.panic,
            stats: self.stats,
            materialised,
            calls: self.call,
        }
    }
}

fn client_event(ev: uflow::client::Event) -> AppEvent {
    use uflow::client::{ErrorType, Event};
    match ev {
        Event::Connect => AppEvent::Connect,
        Event::Disconnect => AppEvent::Disconnect,
        Event::Receive(d) => AppEvent::Receive(Rc::new(d.into_vec())),
        Event::Error(e) => AppEvent::Error(match e {
            ErrorType::Timeout => ERR_TIMEOUT,
            ErrorType::Version => ERR_VERSION,
            ErrorType::Config => ERR_CONFIG,
            ErrorType::ServerFull => ERR_SERVER_FULL,
        }),
    }
}

fn server_event(ev: uflow::server::Event) -> (SocketAddr, AppEvent) {
    use uflow::server::{ErrorType, Event};
    match ev {
        Event::Connect(a) => (a, AppEvent::Connect),
        Event::Disconnect(a) => (a, AppEvent::Disconnect),
        Event::Receive(a, d) => (a, AppEvent::Receive(Rc::new(d.into_vec()))),
        Event::Error(a, e) => (
            a,
            AppEvent::Error(match e {
                ErrorType::Timeout => ERR_TIMEOUT,
                ErrorType::Version => ERR_VERSION,
                ErrorType::Config => ERR_CONFIG,
                ErrorType::ServerFull => ERR_SERVER_FULL,
            }),
        ),
    }
}

/// World A glue: exactly what `Client::step` does for an active connection, in the same order.
fn hc_step(hc: &mut uv::HalfConnection, inbox: &mut VecDeque<(SocketAddr, Rc<Vec<u8>>)>, peer_addr: SocketAddr, out: &mut CallOut, read: bool) {
    let mut sink = VecFrameSink { frames: Vec::new() };
    hc.flush(&mut sink);
    while let Some((src, bytes)) = inbox.pop_front() {
        if bytes.len() <= uflow::MAX_FRAME_SIZE {
            if let Some(frame) = uv::Frame::read(&bytes) {
                match frame {
                    uv::Frame::DataFrame(f) => drop(hc.handle_data_frame(f)),
                    uv::Frame::SyncFrame(f) => drop(hc.handle_sync_frame(f)),
                    uv::Frame::AckFrame(f) => drop(hc.handle_ack_frame(f)),
                    _ => (),
                }
            }
        }
        out.consumed_hc.push((src, bytes));
    }
    hc.step();
    let mut psink = VecPacketSink { packets: Vec::new() };
    if read {
        hc.receive(&mut psink);
    }
    for f in sink.frames {
        out.frames.push((peer_addr, f));
    }
    for p in psink.packets {
        out.events.push((None, AppEvent::Receive(Rc::new(p.into_vec()))));
    }
}

/// Executes a plan against a set of oracles. The final `Teardown` record (heap accounting after
/// every endpoint has been dropped) is delivered here, once the run's own buffers are gone.
///
/// Every execution runs on a thread of its own. Whatever the library keeps in thread-local or
/// lazily initialised per-thread state (a seeded change did: a pool of spare blocks that outlives
/// the connection) therefore cannot carry over from one execution to the next, and the same plan
/// gives the same result whichever worker runs it and however often. The calling thread waits for
/// the result, so oracles and adversary are only ever touched by one thread at a time.
pub fn execute(plan: &Plan, oracles: &mut Vec<Box<dyn Oracle>>, opts: ExecOpts, adversary: Option<Box<dyn Adversary>>) -> Result<RunOutcome, String> {
    struct Shuttle<T>(T);
    unsafe impl<T> Send for Shuttle<T> {}
    impl<T> Shuttle<T> {
        fn take(self) -> T {
            self.0
        }
    }
    let worker = crate::watchdog::current_worker();
    let args = Shuttle((oracles, adversary));
    std::thread::scope(|scope| {
        let h = std::thread::Builder::new()
            .stack_size(16 << 20)
            .spawn_scoped(scope, move || {
                let (oracles, adversary) = args.take();
                crate::watchdog::register_worker(worker);
                let r = execute_here(plan, oracles, opts, adversary);
                alloc::drain_quarantine();
                Shuttle(r)
            })
            .map_err(|e| format!("cannot start the execution thread: {}", e))?;
        match h.join() {
            Ok(r) => r.take(),
            Err(p) => std::panic::resume_unwind(p),
        }
    })
}

fn execute_here(plan: &Plan, oracles: &mut Vec<Box<dyn Oracle>>, opts: ExecOpts, adversary: Option<Box<dyn Adversary>>) -> Result<RunOutcome, String> {
    let n = plan.endpoints.len();
    let base: Vec<i64> = (0..=n).map(|d| alloc::live(d)).collect();
    let base_blocks: Vec<i64> = (0..=n).map(|d| alloc::live_blocks(d)).collect();
    alloc::reset_zero_size_requests();
    // (a previous run on this thread may have ended by a violation and torn its endpoints down
    // afterwards: whatever that counted is not this run's)
    alloc::reset_mismatches();
    alloc::reset_double_frees();
    let mismatches_before = alloc::mismatches();
    let world = World::new(plan, opts, adversary)?;
    let mut outcome = world.run(oracles);
    if outcome.panic.is_none() && outcome.violation.is_none() {
        let addrs: Vec<SocketAddr> = plan.endpoints.iter().map(|e| e.addr.parse().unwrap()).collect();
        let cx = Cx { plan, addrs: &addrs, now_ns: outcome.stats.sim_us * 1000 };
        let live: Vec<i64> = (1..=n).map(|d| alloc::live(d) - base[d]).collect();
        let live_blocks: Vec<i64> = (1..=n).map(|d| alloc::live_blocks(d) - base_blocks[d]).collect();
        let rec = Rec::Teardown { live, live_blocks, zero_size: alloc::zero_size_requests(), mismatches: alloc::mismatches() - mismatches_before };
        for o in oracles.iter_mut() {
            if let Some(v) = o.on(&rec, &cx) {
                if outcome.violation.is_none() {
                    outcome.violation = Some(v);
                }
            }
        }
    }
    Ok(outcome)
}
