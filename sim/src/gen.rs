//! Scenario generators: seed -> plan. Every family has a *swept* dimension that is a
//! deterministic function of the run index (so small discrete spaces are covered completely in
//! every tier) and a *sampled* envelope drawn from the seed, swarm style: each run enables a
//! random subset of fault kinds and workload features.

use crate::plan::*;
use crate::rng::{key, Rng};

pub const FRAG: u64 = 1448;

pub fn hc_addr(i: usize) -> String {
    format!("10.0.0.{}:{}", i + 1, 7000 + i)
}

/// Lengths around fragment-boundary multiples, plus 0, 1 and friends (C04's boundary set).
pub fn boundary_lengths() -> Vec<u32> {
    let mut v: Vec<u32> = vec![0, 1, 2, 11, 12, 13, 63, 64, 65, 255, 256, 257];
    for k in [1u64, 2, 3, 4, 5, 6, 7, 8, 16, 45] {
        for d in -2i64..=2 {
            v.push((k as i64 * FRAG as i64 + d) as u32);
        }
    }
    v
}

/// Second boundary set (used by the runs added later): fragment counts around multiples of 64,
/// where per-fragment bitfields change words.
pub fn word_boundary_lengths() -> Vec<u32> {
    let mut v = Vec::new();
    for k in [64u32, 128, 192, 256] {
        v.extend_from_slice(&[(k - 1) * FRAG as u32, (k - 1) * FRAG as u32 + 1, k * FRAG as u32 - 7, k * FRAG as u32, k * FRAG as u32 + 1]);
    }
    v
}

pub struct ASetup {
    pub win_frame: [u32; 2],
    pub win_packet: [u32; 2],
    pub frame_base: [u32; 2],
    pub packet_base: [u32; 2],
    pub alloc: [u64; 2],
    pub bandwidth: [u32; 2],
    pub keepalive: [Option<u64>; 2],
    pub ppm: [u64; 2],
}

impl ASetup {
    pub fn default_like() -> Self {
        Self {
            win_frame: [4096, 4096],
            win_packet: [4096, 4096],
            frame_base: [0, 0],
            packet_base: [0, 0],
            alloc: [1_000_000, 1_000_000],
            bandwidth: [2_000_000, 2_000_000],
            keepalive: [Some(5000), Some(5000)],
            ppm: [1_000_000, 1_000_000],
        }
    }

    /// Consistent pair, exactly as the handshake would produce: A's tx = B's rx and vice versa.
    pub fn endpoints(&self) -> Vec<EndpointSpec> {
        (0..2)
            .map(|i| {
                let j = 1 - i;
                EndpointSpec {
                    kind: EndpointKind::Hc {
                        spec: HcSpec {
                            tx_frame_base_id: self.frame_base[i],
                            rx_frame_base_id: self.frame_base[j],
                            tx_frame_window_size: self.win_frame[i],
                            rx_frame_window_size: self.win_frame[j],
                            tx_packet_base_id: self.packet_base[i],
                            rx_packet_base_id: self.packet_base[j],
                            tx_packet_window_size: self.win_packet[i],
                            rx_packet_window_size: self.win_packet[j],
                            tx_bandwidth_limit: self.bandwidth[i],
                            tx_alloc_limit: self.alloc[j],
                            rx_alloc_limit: self.alloc[i],
                            keepalive_interval_ms: self.keepalive[i],
                        },
                        peer: j,
                    },
                    addr: hc_addr(i),
                    clock_ppm: self.ppm[i],
                    echo: false,
                    nonces: Vec::new(),
                }
            })
            .collect()
    }

    pub fn sample(r: &mut Rng, near_wrap: bool, small_windows: bool) -> Self {
        let mut s = Self::default_like();
        for i in 0..2 {
            let (kf, kp) = if small_windows { (r.range(0, 6), r.range(0, 6)) } else if r.chance(0.5) { (12, 12) } else { (r.range(0, 12), r.range(0, 12)) };
            s.win_frame[i] = 1 << kf;
            s.win_packet[i] = 1 << kp;
            if near_wrap {
                // within one window of the 2^32 / 2^20 wrap-around
                s.frame_base[i] = 0u32.wrapping_sub(r.range(0, 2 * s.win_frame[i] as u64) as u32);
                s.packet_base[i] = (0x100000 - r.range(0, 2 * s.win_packet[i] as u64) as u32) & 0xFFFFF;
            } else if r.chance(0.5) {
                s.frame_base[i] = r.u32();
                s.packet_base[i] = r.u32() & 0xFFFFF;
            }
            s.alloc[i] = match r.below(7) {
                // exact multiples of the fragment size: the rounding of both sides must agree
                6 => r.range(1, 40) * FRAG,
                0 => r.range(1, 1448),
                1 => r.range(1449, 20_000),
                2 => r.range(20_000, 200_000),
                3 => 1_000_000,
                4 => r.range(200_000, 4_000_000),
                _ => 1448 * 4096,
            };
            s.bandwidth[i] = match r.below(10) {
                0 => r.log_range(1472, 20_000) as u32,
                1 | 2 => r.log_range(20_000, 500_000) as u32,
                3 | 4 | 5 => 2_000_000,
                6 | 7 => r.log_range(500_000, 50_000_000) as u32,
                _ => 100_000,
            };
            s.keepalive[i] = if r.chance(0.8) { Some(r.log_range(100, 30_000)) } else { None };
            s.ppm[i] = if r.chance(0.3) { r.range(980_000, 1_020_000) } else { 1_000_000 };
        }
        s
    }
}

pub struct Cadence {
    pub period_us: u64,
    pub jitter: f64,
    pub stall_p: f64,
    pub stall_max_us: u64,
    pub flush_after_step_p: f64,
}

impl Cadence {
    pub fn sample(r: &mut Rng) -> Self {
        Self {
            period_us: match r.below(10) {
                0 => r.range(0, 1000),
                1 | 2 => r.range(1000, 10_000),
                3 | 4 | 5 => r.range(10_000, 40_000),
                6 | 7 => r.range(40_000, 200_000),
                8 => r.log_range(200_000, 1_000_000),
                _ => 30_000,
            },
            jitter: if r.chance(0.5) { r.f64() } else { 0.0 },
            stall_p: if r.chance(0.3) { 0.002 + r.f64() * 0.02 } else { 0.0 },
            stall_max_us: r.log_range(100_000, 30_000_000),
            flush_after_step_p: if r.chance(0.4) { r.f64() } else { 0.0 },
        }
    }

    /// Step times for endpoint `ep` over [from, until); at most `max_steps`.
    pub fn steps(&self, r: &mut Rng, plan: &mut Plan, ep: usize, from_us: u64, until_us: u64, max_steps: usize, allow_stalls: bool) {
        // never run out of steps before the end of the span (that would be an unintended stall)
        let span = until_us.saturating_sub(from_us);
        let min_period = if max_steps == usize::MAX { 0 } else { span / max_steps.max(1) as u64 + 1 };
        let period_us = self.period_us.max(min_period);
        let mut t = from_us + r.below(period_us.max(1));
        let mut n = 0;
        while t < until_us && n < max_steps {
            plan.push(t, r.u32() | 1, Op::Step { ep });
            if self.flush_after_step_p > 0.0 && r.chance(self.flush_after_step_p) {
                plan.push(t + r.below(period_us.max(2) / 2 + 1), r.u32() | 1, Op::Flush { ep });
            }
            let mut dt = period_us;
            if self.jitter > 0.0 {
                dt = (dt as f64 * (1.0 - self.jitter / 2.0 + self.jitter * r.f64())) as u64;
            }
            if allow_stalls && self.stall_p > 0.0 && r.chance(self.stall_p) {
                dt += r.log_range(50_000, self.stall_max_us);
            }
            t += dt.max(if period_us == 0 { r.below(3) } else { 1 });
            n += 1;
        }
    }
}

pub fn sample_len(r: &mut Rng, max_len: u64) -> u32 {
    let l = match r.below(20) {
        0 | 1 => r.range(0, 11),
        2..=9 => r.range(12, 300),
        10..=13 => r.range(300, 1447),
        14 | 15 => {
            let k = r.range(1, 8);
            (k * FRAG + r.range(0, 4)).saturating_sub(2)
        }
        16 | 17 => r.range(1449, 8_000),
        18 => r.log_range(1449, 70_000),
        _ => r.range(12, 1448),
    };
    l.min(max_len) as u32
}

pub struct Workload {
    pub packets: u64,
    pub channels: u8,
    pub mode_w: [u32; 4],
    pub burst_max: u64,
    pub max_len: u64,
    pub flush_after_send_p: f64,
    pub short_ch: u8,
    pub fixed_len: Option<u32>,
    /// packets shorter than 4 bytes cannot carry a unique tag: they all use this mode, so that
    /// identical payloads are interchangeable for the order oracles
    pub tiny_mode: u8,
    /// probability that a burst is a "parent lead" pattern: one Reliable packet followed by
    /// 126..130 / 254..258 / 300 small non-reliable packets on the same channel (the datagram
    /// encodings switch at leads of 128 and 256)
    pub lead_pattern_p: f64,
    /// probability that a burst is 120..300 packets of 0-3 bytes submitted in one instant (more
    /// datagrams than one data frame can count); 0.4 x lead_pattern_p unless a family sets it
    pub tiny_burst_p: f64,
}

impl Workload {
    pub fn sample(r: &mut Rng, packets: u64, max_len: u64) -> Self {
        let mut mode_w = [0u32; 4];
        // swarm: each mode enabled with probability 0.7, at least one
        for m in mode_w.iter_mut() {
            if r.chance(0.7) {
                *m = 1 + r.below(4) as u32;
            }
        }
        if mode_w.iter().all(|m| *m == 0) {
            mode_w[r.below(4) as usize] = 1;
        }
        let channels = *r.pick(&[1u8, 1, 2, 4, 8, 64]);
        Self {
            packets,
            channels,
            mode_w,
            burst_max: *r.pick(&[1u64, 1, 4, 16, 64, 400]),
            max_len,
            flush_after_send_p: if r.chance(0.4) { r.f64() } else { 0.0 },
            short_ch: r.below(channels as u64) as u8,
            fixed_len: None,
            tiny_mode: r.below(4) as u8,
            lead_pattern_p: if r.chance(0.4) { 0.25 } else { 0.0 },
            tiny_burst_p: 0.0,
        }
        .derive()
    }

    fn derive(mut self) -> Self {
        self.tiny_burst_p = self.lead_pattern_p * 0.4;
        self
    }

    pub fn pick_mode(&self, r: &mut Rng) -> u8 {
        let total: u32 = self.mode_w.iter().sum();
        let mut x = r.below(total as u64) as u32;
        for (i, w) in self.mode_w.iter().enumerate() {
            if x < *w {
                return i as u8;
            }
            x -= w;
        }
        3
    }

    /// Emits send operations for endpoint `ep` in [from, until); returns the number sent.
    pub fn sends(&self, r: &mut Rng, plan: &mut Plan, ep: usize, to: Option<usize>, from_us: u64, until_us: u64, tag0: u32) -> u32 {
        let mut tag = tag0;
        let mut left = self.packets;
        while left > 0 {
            if self.lead_pattern_p > 0.0 && self.fixed_len.is_none() && self.max_len >= 64 && r.chance(self.lead_pattern_p) {
                let t = r.range(from_us, until_us.max(from_us));
                let ch = r.below(self.channels as u64) as u8;
                let k = *r.pick(&[126u32, 127, 128, 129, 130, 254, 255, 256, 257, 258, 300]);
                plan.push(t, 0x4000_0000 + tag, Op::Send { ep, to, ch, mode: MODE_RELIABLE, len: r.range(12, 40) as u32, tag });
                tag += 1;
                let other = *r.pick(&[MODE_UNRELIABLE, MODE_PERSISTENT]);
                if self.channels >= 2 && r.chance(0.4) {
                    // two-channel variant: the channel's own parent is 256+ packets back while
                    // another channel's Reliable packet is the (near) window parent
                    let ch2 = (ch + 1 + r.below(self.channels as u64 - 1) as u8) % self.channels;
                    let far = *r.pick(&[128u32, 200, 250, 254, 254, 255, 256, 300]);
                    for _ in 0..far {
                        plan.push(t, 0x4000_0000 + tag, Op::Send { ep, to, ch: ch2, mode: other, len: r.range(12, 60) as u32, tag });
                        tag += 1;
                    }
                    plan.push(t, 0x4000_0000 + tag, Op::Send { ep, to, ch: ch2, mode: MODE_RELIABLE, len: r.range(12, 40) as u32, tag });
                    tag += 1;
                    let near = r.range(1, 140) as u32;
                    for _ in 0..near {
                        plan.push(t, 0x4000_0000 + tag, Op::Send { ep, to, ch, mode: other, len: r.range(12, 63) as u32, tag });
                        tag += 1;
                    }
                    left = left.saturating_sub((far + near) as u64 + 2);
                    continue;
                }
                for _ in 0..k {
                    plan.push(t, 0x4000_0000 + tag, Op::Send { ep, to, ch, mode: other, len: r.range(12, 60) as u32, tag });
                    tag += 1;
                }
                left = left.saturating_sub(k as u64 + 1);
                continue;
            }
            if self.tiny_burst_p > 0.0 && self.fixed_len.is_none() && r.chance(self.tiny_burst_p) {
                // a burst of 120..300 packets of 0-3 bytes in one instant: more datagrams than one
                // frame can count (127), whatever their size
                let t = r.range(from_us, until_us.max(from_us));
                let k = *r.pick(&[120u32, 127, 128, 129, 200, 300]);
                for _ in 0..k {
                    plan.push(t, 0x4000_0000 + tag, Op::Send { ep, to, ch: self.short_ch, mode: self.tiny_mode, len: r.below(4) as u32, tag });
                    tag += 1;
                }
                left = left.saturating_sub(k as u64);
                continue;
            }
            let burst = r.range(1, self.burst_max).min(left);
            let t = r.range(from_us, until_us.max(from_us));
            let spread = if r.chance(0.5) { 0 } else { r.below(50_000) };
            for k in 0..burst {
                let len = self.fixed_len.unwrap_or_else(|| sample_len(r, self.max_len));
                let ch = if len < 12 { self.short_ch } else { r.below(self.channels as u64) as u8 };
                let mode = if len < 4 { self.tiny_mode } else { self.pick_mode(r) };
                // within a burst, keep submission order = tag order
                plan.push(t + if burst > 1 { spread * k / burst } else { 0 }, 0x4000_0000 + tag, Op::Send { ep, to, ch, mode, len, tag });
                tag += 1;
            }
            if self.flush_after_send_p > 0.0 && r.chance(self.flush_after_send_p) {
                plan.push(t + spread + 1, r.u32() | 1, Op::Flush { ep });
            }
            left -= burst;
        }
        tag - tag0
    }
}

pub fn clean_rule(latency_us: u64) -> LinkRule {
    LinkRule { latency_us, ..LinkRule::default() }
}

/// Swarm-style fault rule: each fault kind is enabled with some probability.
pub fn faulty_rule(r: &mut Rng, latency_us: u64, allow_flips: bool) -> LinkRule {
    let mut rule = clean_rule(latency_us);
    if r.chance(0.6) {
        rule.jitter_us = r.log_range(1, (latency_us * 2).max(2));
    }
    if r.chance(0.6) {
        rule.drop_p = *r.pick(&[0.01, 0.05, 0.1, 0.2, 0.4]);
    }
    if r.chance(0.5) {
        rule.dup_p = *r.pick(&[0.01, 0.05, 0.2]);
    }
    if r.chance(0.5) {
        rule.reorder_p = *r.pick(&[0.02, 0.1, 0.3]);
        rule.reorder_us = r.log_range(1000, 3_000_000);
    }
    if allow_flips && r.chance(0.4) {
        rule.flip_p = *r.pick(&[0.01, 0.05, 0.2]);
    }
    // heavier damage than the CRC guarantees to catch (5-40 flipped bits, truncation): it passes
    // a 32-bit check once in 2^32 times
    if allow_flips && r.chance(0.15) {
        rule.garble_p = *r.pick(&[0.01, 0.05]);
    }
    rule
}

pub fn sample_latency(r: &mut Rng) -> u64 {
    match r.below(10) {
        0 => r.range(50, 1000),
        1..=5 => r.range(1000, 30_000),
        6 | 7 => r.range(30_000, 100_000),
        8 => r.range(100_000, 400_000),
        _ => 10_000,
    }
}

pub struct AScenario {
    pub near_wrap: bool,
    pub small_windows: bool,
    pub packets: u64,
    pub send_window_us: u64,
    pub fault_until_us: u64,
    pub horizon_us: u64,
    pub allow_flips: bool,
    pub allow_stalls: bool,
    pub phases: u64,
}

/// World A: two half connections, both directions active, arbitrary faults until
/// `fault_until_us`, then (optionally) a clean link.
pub fn world_a_general(property: &str, scenario: &str, seed: u64, run: u64, sc: &AScenario, heal: bool) -> Plan {
    world_a_general_with(property, scenario, seed, run, sc, heal, &|_| ())
}

/// The same with a family-specific adjustment of each endpoint's sampled workload.
pub fn world_a_general_with(property: &str, scenario: &str, seed: u64, run: u64, sc: &AScenario, heal: bool, tweak: &dyn Fn(&mut Workload)) -> Plan {
    let mut r = Rng::keyed(&[seed, crate::rng::str_key(property), crate::rng::str_key(scenario), run]);
    let mut plan = Plan::new(property, scenario, seed, run);
    plan.fate_seed = Some(key(&[seed, run, 0xfa7e]));
    let setup = ASetup::sample(&mut r, sc.near_wrap, sc.small_windows);
    plan.endpoints = setup.endpoints();
    plan.push(0, 0, Op::Create { ep: 0 });
    plan.push(0, 1, Op::Create { ep: 1 });

    let latency = sample_latency(&mut r);
    // fault phases
    let mut t = 0;
    for p in 0..sc.phases.max(1) {
        for (from, to) in [(0usize, 1usize), (1, 0)] {
            let mut rule = if r.chance(0.15) && p > 0 { clean_rule(latency) } else { faulty_rule(&mut r, latency, sc.allow_flips) };
            if r.chance(0.08) && p > 0 {
                rule.blackout = true;
            }
            if r.chance(0.1) {
                rule.drop_types = 1 << *r.pick(&[10u32, 11, 12]);
                rule.drop_types_p = *r.pick(&[0.5, 0.9, 1.0]);
            }
            plan.push(t, 2, Op::Link { from: Some(from), to: Some(to), rule });
        }
        t += sc.fault_until_us / sc.phases.max(1);
    }
    if heal {
        plan.push(sc.fault_until_us, 2, Op::Link { from: None, to: None, rule: clean_rule(latency.min(200_000)) });
        plan.push(sc.fault_until_us, 3, Op::Mark { name: "heal".into() });
    }

    let mut short_ch = 0;
    let mut tiny_mode = 0;
    for ep in 0..2 {
        let max_len = ((setup.alloc[1 - ep] + FRAG - 1) / FRAG * FRAG).min(70_000);
        let packets = if ep == 0 || r.chance(0.7) { sc.packets } else { sc.packets / 8 };
        let mut w = Workload::sample(&mut r, packets.max(1), max_len);
        tweak(&mut w);
        if ep == 0 {
            short_ch = w.short_ch;
            tiny_mode = w.tiny_mode;
        } else {
            w.tiny_mode = tiny_mode;
            w.short_ch = short_ch.min(w.channels - 1);
            if w.short_ch != short_ch {
                // keep one designated channel for untagged packets in both directions
                w.channels = w.channels.max(short_ch + 1);
                w.short_ch = short_ch;
            }
        }
        w.sends(&mut r, &mut plan, ep, None, 0, sc.send_window_us, 0);
        let cad = Cadence::sample(&mut r);
        let fault_end = if heal { sc.fault_until_us } else { sc.horizon_us };
        cad.steps(&mut r, &mut plan, ep, 0, fault_end, 8_000, sc.allow_stalls);
        if heal {
            // fair phase: both applications keep stepping at least every 200 ms
            let period = cad.period_us.clamp(1000, 200_000);
            plan.push(fault_end + r.below(period), r.u32() | 1, Op::StepEvery { ep, period_us: period, until_us: sc.horizon_us });
        }
    }
    // a receive buffer that holds only a few datagrams for a while (what arrives beyond is lost)
    {
        let mut r = Rng::keyed(&[seed, run, 0x50c4_a]);
        let until = if heal { sc.fault_until_us } else { sc.horizon_us };
        if until > 1_000_000 && r.chance(0.12) {
            let ep = r.below(2) as usize;
            let t0 = r.range(100_000, until);
            let t1 = (t0 + r.log_range(10_000, 5_000_000)).min(until);
            plan.push(t0, r.u32() | 1, Op::SockCap { ep, cap: *r.pick(&[1u32, 2, 4, 16]) });
            plan.push(t1, r.u32() | 1, Op::SockCap { ep, cap: u32::MAX });
        }
    }
    clock_jumps(&mut plan, seed, run, &[0, 1], if heal { sc.fault_until_us } else { sc.horizon_us });
    plan.params.insert("short_ch".into(), short_ch as f64);
    plan.end_us = sc.horizon_us;
    plan.sort();
    plan
}

/// Forward jumps of an endpoint's clock (the process was suspended, the machine slept: between two
/// calls the local time advances by 50 ms .. 30 s more than the simulated time). Swarm style: most
/// runs have none. All before `until_us`; drawn from a generator of their own so that the rest of
/// the plan does not depend on them.
pub fn clock_jumps(plan: &mut Plan, seed: u64, run: u64, eps: &[usize], until_us: u64) {
    let mut r = Rng::keyed(&[seed, run, 0xc10c_4a]);
    if until_us < 500_000 || eps.is_empty() || !r.chance(0.12) {
        return;
    }
    for _ in 0..r.range(1, 3) {
        let ep = *r.pick(eps);
        plan.push(r.range(50_000, until_us), r.u32() | 1, Op::ClockJump { ep, us: r.log_range(50_000, 30_000_000) });
    }
}
