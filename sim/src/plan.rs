//! A run is a pure function of a *plan*: endpoint specifications, a timeline of operations with
//! explicit simulated times, link rules and per-datagram fates. In search mode fates that are not
//! listed are drawn from a keyed pseudo-random stream and recorded; a replay file is the fully
//! materialised plan and is executed without a single random draw.

use serde_json::{json, Map, Value};
use std::collections::BTreeMap;

pub const MODE_TIME_SENSITIVE: u8 = 0;
pub const MODE_UNRELIABLE: u8 = 1;
pub const MODE_PERSISTENT: u8 = 2;
pub const MODE_RELIABLE: u8 = 3;

pub fn mode_name(m: u8) -> &'static str {
    match m {
        0 => "TimeSensitive",
        1 => "Unreliable",
        2 => "Persistent",
        _ => "Reliable",
    }
}

#[derive(Clone, Debug, PartialEq)]
pub struct HcSpec {
    pub tx_frame_base_id: u32,
    pub rx_frame_base_id: u32,
    pub tx_frame_window_size: u32,
    pub rx_frame_window_size: u32,
    pub tx_packet_base_id: u32,
    pub rx_packet_base_id: u32,
    pub tx_packet_window_size: u32,
    pub rx_packet_window_size: u32,
    pub tx_bandwidth_limit: u32,
    pub tx_alloc_limit: u64,
    pub rx_alloc_limit: u64,
    pub keepalive_interval_ms: Option<u64>,
}

#[derive(Clone, Debug, PartialEq)]
pub struct EndpointCfg {
    pub max_send_rate: u64,
    pub max_receive_rate: u64,
    pub max_packet_size: u64,
    pub max_receive_alloc: u64,
    pub keepalive: bool,
    pub keepalive_interval_ms: u64,
    pub active_timeout_ms: u64,
}

impl Default for EndpointCfg {
    fn default() -> Self {
        Self {
            max_send_rate: 2_000_000,
            max_receive_rate: 2_000_000,
            max_packet_size: 1_000_000,
            max_receive_alloc: 1_000_000,
            keepalive: true,
            keepalive_interval_ms: 5000,
            active_timeout_ms: 20000,
        }
    }
}

#[derive(Clone, Debug, PartialEq)]
pub enum EndpointKind {
    /// World A: a bare half connection, wired to endpoint `peer`.
    Hc { spec: HcSpec, peer: usize },
    /// World B: a real `Client` connecting to endpoint `server`.
    Client { cfg: EndpointCfg, server: usize },
    /// World B: a real `Server`.
    Server { cfg: EndpointCfg, max_total: u64, max_active: u64, handshake_errors: bool },
    /// A harness-owned raw socket (forged / hostile traffic, byte accounting).
    Raw,
    /// World U: the TFRC rate computer alone, driven by generated feedback.
    Rate { max_send_rate: u32 },
}

#[derive(Clone, Debug, PartialEq)]
pub struct EndpointSpec {
    pub kind: EndpointKind,
    /// Simulated address "a.b.c.d:port"
    pub addr: String,
    /// Clock rate in parts per million relative to the global clock (1_000_000 = exact).
    pub clock_ppm: u64,
    /// Echo every received packet back to its sender (Reliable, channel 0).
    pub echo: bool,
    /// Forced values for the endpoint's next u32 nonce draws (steers initial sequence ids).
    pub nonces: Vec<u32>,
}

/// What happens to one datagram. No copies = dropped.
#[derive(Clone, Debug, PartialEq, Default)]
pub struct Fate {
    pub copies: Vec<FateCopy>,
}

#[derive(Clone, Debug, PartialEq, Default)]
pub struct FateCopy {
    pub delay_us: u64,
    /// Bit positions to flip (taken modulo the datagram's bit length).
    pub flips: Vec<u32>,
    /// Truncate to this many bytes.
    pub trunc: Option<u32>,
    /// Deliver these bytes instead (a middlebox re-encoded the frame).
    pub replace: Option<Vec<u8>>,
}

impl Fate {
    pub fn deliver(delay_us: u64) -> Self {
        Self { copies: vec![FateCopy { delay_us, flips: Vec::new(), trunc: None, replace: None }] }
    }
    pub fn dropped() -> Self {
        Self { copies: Vec::new() }
    }
    pub fn is_plain(&self) -> bool {
        self.copies.len() == 1 && self.copies[0].flips.is_empty() && self.copies[0].trunc.is_none() && self.copies[0].replace.is_none()
    }
}

/// Statistical rule used to draw fates in search mode; in replay only `latency_us` and `fifo`
/// matter (for datagrams without an explicit fate).
#[derive(Clone, Debug, PartialEq)]
pub struct LinkRule {
    pub latency_us: u64,
    pub jitter_us: u64,
    pub drop_p: f64,
    pub dup_p: f64,
    pub flip_p: f64,
    /// probability of an extra long delay (reordering)
    pub reorder_p: f64,
    pub reorder_us: u64,
    pub blackout: bool,
    /// drop only frames whose type id is in this mask (bit = frame id); 0 = no filter
    pub drop_types: u32,
    /// probability that the filter applies to a matching frame
    pub drop_types_p: f64,
    pub fifo: bool,
    /// gross corruption (more than 4 flips / truncation) probability
    pub garble_p: f64,
}

impl Default for LinkRule {
    fn default() -> Self {
        Self {
            latency_us: 10_000,
            jitter_us: 0,
            drop_p: 0.0,
            dup_p: 0.0,
            flip_p: 0.0,
            reorder_p: 0.0,
            reorder_us: 0,
            blackout: false,
            drop_types: 0,
            drop_types_p: 1.0,
            fifo: false,
            garble_p: 0.0,
        }
    }
}

#[derive(Clone, Debug, PartialEq)]
pub enum Op {
    Create { ep: usize },
    Destroy { ep: usize },
    Step { ep: usize },
    /// Step now and then every `period_us` until `until_us` (compact form of a fair stepping phase).
    StepEvery { ep: usize, period_us: u64, until_us: u64 },
    Flush { ep: usize },
    Send { ep: usize, to: Option<usize>, ch: u8, mode: u8, len: u32, tag: u32 },
    /// `count` sends in one go: tags tag..tag+count, channel (tag+i) % 4, modes cycling through
    /// Unreliable / Reliable / Persistent, all `len` bytes (compact form for very long streams).
    SendBurst { ep: usize, to: Option<usize>, len: u32, tag: u32, count: u32 },
    Disconnect { ep: usize, to: Option<usize> },
    DisconnectNow { ep: usize, to: Option<usize> },
    ServerDrop { ep: usize, to: usize },
    /// Replace the rule of the directed link from -> to (None = every link).
    Link { from: Option<usize>, to: Option<usize>, rule: LinkRule },
    ClockJump { ep: usize, us: u64 },
    /// A datagram appears at `to`, claiming to come from `from`'s address.
    /// `twin` marks datagrams that exist only in the twin run of a twin-run comparison (C15).
    Inject { to: usize, from: usize, bytes: Vec<u8>, twin: bool },
    SockErr { ep: usize, recv: u32, send: u32 },
    SockCap { ep: usize, cap: u32 },
    /// Marker for oracles (e.g. "heal": no fault after this point).
    Mark { name: String },
    /// World U: a frame was sent.
    RateSent { ep: usize },
    /// World U: step the rate computer, optionally with a feedback report
    /// (rtt sample ms, receive rate, loss rate, rate limited).
    RateStep { ep: usize, fb: Option<(u64, u32, f64, bool)> },
}

impl Op {
    pub fn ep(&self) -> Option<usize> {
        match self {
            Op::Create { ep } | Op::Destroy { ep } | Op::Step { ep } | Op::Flush { ep } | Op::StepEvery { ep, .. }
            | Op::Send { ep, .. } | Op::SendBurst { ep, .. } | Op::Disconnect { ep, .. } | Op::DisconnectNow { ep, .. }
            | Op::ServerDrop { ep, .. } | Op::ClockJump { ep, .. } | Op::SockErr { ep, .. }
            | Op::SockCap { ep, .. } | Op::RateSent { ep } | Op::RateStep { ep, .. } => Some(*ep),
            Op::Inject { to, .. } => Some(*to),
            _ => None,
        }
    }

    pub fn name(&self) -> &'static str {
        match self {
            Op::Create { .. } => "create",
            Op::Destroy { .. } => "destroy",
            Op::Step { .. } => "step",
            Op::StepEvery { .. } => "step_every",
            Op::Flush { .. } => "flush",
            Op::Send { .. } => "send",
            Op::SendBurst { .. } => "send_burst",
            Op::Disconnect { .. } => "disconnect",
            Op::DisconnectNow { .. } => "disconnect_now",
            Op::ServerDrop { .. } => "drop",
            Op::Link { .. } => "link",
            Op::ClockJump { .. } => "clock_jump",
            Op::Inject { .. } => "inject",
            Op::SockErr { .. } => "sock_err",
            Op::SockCap { .. } => "sock_cap",
            Op::Mark { .. } => "mark",
            Op::RateSent { .. } => "rate_sent",
            Op::RateStep { .. } => "rate_step",
        }
    }
}

#[derive(Clone, Debug, PartialEq)]
pub struct TimedOp {
    pub t_us: u64,
    /// Tie-break among simultaneous events (itself a seeded choice in search mode).
    pub rank: u32,
    pub op: Op,
}

#[derive(Clone, Debug, PartialEq, Default)]
pub struct Expect {
    pub violation: String,
    pub at_call: u64,
    pub digest: String,
}

#[derive(Clone, Debug, PartialEq)]
pub struct Plan {
    pub property: String,
    pub scenario: String,
    pub seed: u64,
    pub run: u64,
    pub endpoints: Vec<EndpointSpec>,
    pub timeline: Vec<TimedOp>,
    /// Explicit fates: "from>to" -> ordinal -> fate
    pub fates: BTreeMap<String, BTreeMap<u64, Fate>>,
    /// Search mode: draw missing fates from the link rules with this seed. Replay: None.
    pub fate_seed: Option<u64>,
    /// Search mode: adversary kind that injects reactive frames ("" = none).
    pub adversary: String,
    pub end_us: u64,
    /// Free-form scenario parameters that oracles read (budgets, regime flags).
    pub params: BTreeMap<String, f64>,
    pub expect: Option<Expect>,
}

impl Plan {
    pub fn new(property: &str, scenario: &str, seed: u64, run: u64) -> Self {
        Self {
            property: property.to_string(),
            scenario: scenario.to_string(),
            seed,
            run,
            endpoints: Vec::new(),
            timeline: Vec::new(),
            fates: BTreeMap::new(),
            fate_seed: None,
            adversary: String::new(),
            end_us: 0,
            params: BTreeMap::new(),
            expect: None,
        }
    }

    pub fn param(&self, name: &str, default: f64) -> f64 {
        self.params.get(name).copied().unwrap_or(default)
    }

    pub fn push(&mut self, t_us: u64, rank: u32, op: Op) {
        self.timeline.push(TimedOp { t_us, rank, op });
    }

    pub fn sort(&mut self) {
        // stable: equal (t, rank) keep generation order
        self.timeline.sort_by(|a, b| (a.t_us, a.rank).cmp(&(b.t_us, b.rank)));
    }
}

// ---------------------------------------------------------------------------------------------
// JSON

fn hex(b: &[u8]) -> String {
    let mut s = String::with_capacity(b.len() * 2);
    for x in b {
        s.push_str(&format!("{:02x}", x));
    }
    s
}

fn unhex(s: &str) -> Result<Vec<u8>, String> {
    if s.len() % 2 != 0 {
        return Err("odd hex length".into());
    }
    (0..s.len() / 2)
        .map(|i| u8::from_str_radix(&s[2 * i..2 * i + 2], 16).map_err(|e| e.to_string()))
        .collect()
}

fn rule_to_json(r: &LinkRule) -> Value {
    json!({
        "latency_us": r.latency_us, "jitter_us": r.jitter_us, "drop_p": r.drop_p, "dup_p": r.dup_p,
        "flip_p": r.flip_p, "reorder_p": r.reorder_p, "reorder_us": r.reorder_us,
        "blackout": r.blackout, "drop_types": r.drop_types, "drop_types_p": r.drop_types_p,
        "fifo": r.fifo, "garble_p": r.garble_p,
    })
}

fn get_u64(v: &Value, k: &str) -> Result<u64, String> {
    v.get(k).and_then(|x| x.as_u64()).ok_or_else(|| format!("missing integer field '{}'", k))
}
fn get_f64(v: &Value, k: &str) -> Result<f64, String> {
    v.get(k).and_then(|x| x.as_f64()).ok_or_else(|| format!("missing number field '{}'", k))
}
fn get_bool(v: &Value, k: &str) -> Result<bool, String> {
    v.get(k).and_then(|x| x.as_bool()).ok_or_else(|| format!("missing bool field '{}'", k))
}
fn get_str<'a>(v: &'a Value, k: &str) -> Result<&'a str, String> {
    v.get(k).and_then(|x| x.as_str()).ok_or_else(|| format!("missing string field '{}'", k))
}
fn opt_ep(v: &Value, k: &str) -> Option<usize> {
    v.get(k).and_then(|x| x.as_u64()).map(|x| x as usize)
}

fn rule_from_json(v: &Value) -> Result<LinkRule, String> {
    Ok(LinkRule {
        latency_us: get_u64(v, "latency_us")?,
        jitter_us: get_u64(v, "jitter_us")?,
        drop_p: get_f64(v, "drop_p")?,
        dup_p: get_f64(v, "dup_p")?,
        flip_p: get_f64(v, "flip_p")?,
        reorder_p: get_f64(v, "reorder_p")?,
        reorder_us: get_u64(v, "reorder_us")?,
        blackout: get_bool(v, "blackout")?,
        drop_types: get_u64(v, "drop_types")? as u32,
        drop_types_p: get_f64(v, "drop_types_p")?,
        fifo: get_bool(v, "fifo")?,
        garble_p: get_f64(v, "garble_p")?,
    })
}

fn hc_to_json(s: &HcSpec) -> Value {
    json!({
        "tx_frame_base_id": s.tx_frame_base_id, "rx_frame_base_id": s.rx_frame_base_id,
        "tx_frame_window_size": s.tx_frame_window_size, "rx_frame_window_size": s.rx_frame_window_size,
        "tx_packet_base_id": s.tx_packet_base_id, "rx_packet_base_id": s.rx_packet_base_id,
        "tx_packet_window_size": s.tx_packet_window_size, "rx_packet_window_size": s.rx_packet_window_size,
        "tx_bandwidth_limit": s.tx_bandwidth_limit, "tx_alloc_limit": s.tx_alloc_limit,
        "rx_alloc_limit": s.rx_alloc_limit, "keepalive_interval_ms": s.keepalive_interval_ms,
    })
}

fn hc_from_json(v: &Value) -> Result<HcSpec, String> {
    Ok(HcSpec {
        tx_frame_base_id: get_u64(v, "tx_frame_base_id")? as u32,
        rx_frame_base_id: get_u64(v, "rx_frame_base_id")? as u32,
        tx_frame_window_size: get_u64(v, "tx_frame_window_size")? as u32,
        rx_frame_window_size: get_u64(v, "rx_frame_window_size")? as u32,
        tx_packet_base_id: get_u64(v, "tx_packet_base_id")? as u32,
        rx_packet_base_id: get_u64(v, "rx_packet_base_id")? as u32,
        tx_packet_window_size: get_u64(v, "tx_packet_window_size")? as u32,
        rx_packet_window_size: get_u64(v, "rx_packet_window_size")? as u32,
        tx_bandwidth_limit: get_u64(v, "tx_bandwidth_limit")? as u32,
        tx_alloc_limit: get_u64(v, "tx_alloc_limit")?,
        rx_alloc_limit: get_u64(v, "rx_alloc_limit")?,
        keepalive_interval_ms: v.get("keepalive_interval_ms").and_then(|x| x.as_u64()),
    })
}

fn cfg_to_json(c: &EndpointCfg) -> Value {
    json!({
        "max_send_rate": c.max_send_rate, "max_receive_rate": c.max_receive_rate,
        "max_packet_size": c.max_packet_size, "max_receive_alloc": c.max_receive_alloc,
        "keepalive": c.keepalive, "keepalive_interval_ms": c.keepalive_interval_ms,
        "active_timeout_ms": c.active_timeout_ms,
    })
}

fn cfg_from_json(v: &Value) -> Result<EndpointCfg, String> {
    Ok(EndpointCfg {
        max_send_rate: get_u64(v, "max_send_rate")?,
        max_receive_rate: get_u64(v, "max_receive_rate")?,
        max_packet_size: get_u64(v, "max_packet_size")?,
        max_receive_alloc: get_u64(v, "max_receive_alloc")?,
        keepalive: get_bool(v, "keepalive")?,
        keepalive_interval_ms: get_u64(v, "keepalive_interval_ms")?,
        active_timeout_ms: get_u64(v, "active_timeout_ms")?,
    })
}

fn fate_to_json(f: &Fate) -> Value {
    if f.copies.is_empty() {
        return json!("drop");
    }
    if f.is_plain() {
        return json!({ "delay_us": f.copies[0].delay_us });
    }
    Value::Array(
        f.copies
            .iter()
            .map(|c| {
                let mut m = Map::new();
                m.insert("delay_us".into(), json!(c.delay_us));
                if !c.flips.is_empty() {
                    m.insert("flips".into(), json!(c.flips));
                }
                if let Some(t) = c.trunc {
                    m.insert("trunc".into(), json!(t));
                }
                if let Some(b) = &c.replace {
                    m.insert("replace".into(), json!(hex(b)));
                }
                Value::Object(m)
            })
            .collect(),
    )
}

fn copy_from_json(v: &Value) -> Result<FateCopy, String> {
    Ok(FateCopy {
        delay_us: get_u64(v, "delay_us")?,
        flips: v
            .get("flips")
            .and_then(|x| x.as_array())
            .map(|a| a.iter().filter_map(|x| x.as_u64()).map(|x| x as u32).collect())
            .unwrap_or_default(),
        trunc: v.get("trunc").and_then(|x| x.as_u64()).map(|x| x as u32),
        replace: match v.get("replace").and_then(|x| x.as_str()) {
            Some(h) => Some(unhex(h)?),
            None => None,
        },
    })
}

fn fate_from_json(v: &Value) -> Result<Fate, String> {
    if v.as_str() == Some("drop") {
        return Ok(Fate::dropped());
    }
    if let Some(a) = v.as_array() {
        let copies: Result<Vec<_>, _> = a.iter().map(copy_from_json).collect();
        return Ok(Fate { copies: copies? });
    }
    Ok(Fate { copies: vec![copy_from_json(v)?] })
}

pub fn op_to_json(op: &Op) -> Value {
    match op {
        Op::Create { ep } => json!({"op": "create", "ep": ep}),
        Op::Destroy { ep } => json!({"op": "destroy", "ep": ep}),
        Op::Step { ep } => json!({"op": "step", "ep": ep}),
        Op::StepEvery { ep, period_us, until_us } => json!({"op": "step_every", "ep": ep, "period_us": period_us, "until_us": until_us}),
        Op::Flush { ep } => json!({"op": "flush", "ep": ep}),
        Op::Send { ep, to, ch, mode, len, tag } => {
            json!({"op": "send", "ep": ep, "to": to, "ch": ch, "mode": mode_name(*mode), "len": len, "tag": tag})
        }
        Op::SendBurst { ep, to, len, tag, count } => json!({"op": "send_burst", "ep": ep, "to": to, "len": len, "tag": tag, "count": count}),
        Op::Disconnect { ep, to } => json!({"op": "disconnect", "ep": ep, "to": to}),
        Op::DisconnectNow { ep, to } => json!({"op": "disconnect_now", "ep": ep, "to": to}),
        Op::ServerDrop { ep, to } => json!({"op": "drop", "ep": ep, "to": to}),
        Op::Link { from, to, rule } => json!({"op": "link", "from": from, "to": to, "rule": rule_to_json(rule)}),
        Op::ClockJump { ep, us } => json!({"op": "clock_jump", "ep": ep, "us": us}),
        Op::Inject { to, from, bytes, twin } => {
            if *twin {
                json!({"op": "inject", "to": to, "from": from, "hex": hex(bytes), "twin": true})
            } else {
                json!({"op": "inject", "to": to, "from": from, "hex": hex(bytes)})
            }
        }
        Op::SockErr { ep, recv, send } => json!({"op": "sock_err", "ep": ep, "recv": recv, "send": send}),
        Op::SockCap { ep, cap } => json!({"op": "sock_cap", "ep": ep, "cap": cap}),
        Op::Mark { name } => json!({"op": "mark", "name": name}),
        Op::RateSent { ep } => json!({"op": "rate_sent", "ep": ep}),
        Op::RateStep { ep, fb } => match fb {
            Some((rtt, rate, loss, lim)) => json!({"op": "rate_step", "ep": ep, "rtt_ms": rtt, "recv_rate": rate, "loss_rate": loss, "rate_limited": lim}),
            None => json!({"op": "rate_step", "ep": ep}),
        },
    }
}

fn mode_from_name(s: &str) -> Result<u8, String> {
    match s {
        "TimeSensitive" => Ok(0),
        "Unreliable" => Ok(1),
        "Persistent" => Ok(2),
        "Reliable" => Ok(3),
        _ => Err(format!("unknown mode {}", s)),
    }
}

fn op_from_json(v: &Value) -> Result<Op, String> {
    let name = get_str(v, "op")?;
    let ep = || get_u64(v, "ep").map(|x| x as usize);
    Ok(match name {
        "create" => Op::Create { ep: ep()? },
        "destroy" => Op::Destroy { ep: ep()? },
        "step" => Op::Step { ep: ep()? },
        "step_every" => Op::StepEvery { ep: ep()?, period_us: get_u64(v, "period_us")?, until_us: get_u64(v, "until_us")? },
        "flush" => Op::Flush { ep: ep()? },
        "send" => Op::Send {
            ep: ep()?,
            to: opt_ep(v, "to"),
            ch: get_u64(v, "ch")? as u8,
            mode: mode_from_name(get_str(v, "mode")?)?,
            len: get_u64(v, "len")? as u32,
            tag: get_u64(v, "tag")? as u32,
        },
        "send_burst" => Op::SendBurst { ep: ep()?, to: opt_ep(v, "to"), len: get_u64(v, "len")? as u32, tag: get_u64(v, "tag")? as u32, count: get_u64(v, "count")? as u32 },
        "disconnect" => Op::Disconnect { ep: ep()?, to: opt_ep(v, "to") },
        "disconnect_now" => Op::DisconnectNow { ep: ep()?, to: opt_ep(v, "to") },
        "drop" => Op::ServerDrop { ep: ep()?, to: get_u64(v, "to")? as usize },
        "link" => Op::Link {
            from: opt_ep(v, "from"),
            to: opt_ep(v, "to"),
            rule: rule_from_json(v.get("rule").ok_or("missing rule")?)?,
        },
        "clock_jump" => Op::ClockJump { ep: ep()?, us: get_u64(v, "us")? },
        "inject" => Op::Inject {
            to: get_u64(v, "to")? as usize,
            from: get_u64(v, "from")? as usize,
            bytes: unhex(get_str(v, "hex")?)?,
            twin: v.get("twin").and_then(|x| x.as_bool()).unwrap_or(false),
        },
        "sock_err" => Op::SockErr { ep: ep()?, recv: get_u64(v, "recv")? as u32, send: get_u64(v, "send")? as u32 },
        "sock_cap" => Op::SockCap { ep: ep()?, cap: get_u64(v, "cap")? as u32 },
        "mark" => Op::Mark { name: get_str(v, "name")?.to_string() },
        "rate_sent" => Op::RateSent { ep: ep()? },
        "rate_step" => Op::RateStep {
            ep: ep()?,
            fb: match v.get("rtt_ms").and_then(|x| x.as_u64()) {
                Some(rtt) => Some((rtt, get_u64(v, "recv_rate")? as u32, get_f64(v, "loss_rate")?, get_bool(v, "rate_limited")?)),
                None => None,
            },
        },
        _ => return Err(format!("unknown op {}", name)),
    })
}

fn endpoint_to_json(e: &EndpointSpec) -> Value {
    let kind = match &e.kind {
        EndpointKind::Hc { spec, peer } => json!({"type": "hc", "spec": hc_to_json(spec), "peer": peer}),
        EndpointKind::Client { cfg, server } => json!({"type": "client", "cfg": cfg_to_json(cfg), "server": server}),
        EndpointKind::Server { cfg, max_total, max_active, handshake_errors } => json!({
            "type": "server", "cfg": cfg_to_json(cfg), "max_total": max_total, "max_active": max_active,
            "handshake_errors": handshake_errors
        }),
        EndpointKind::Raw => json!({"type": "raw"}),
        EndpointKind::Rate { max_send_rate } => json!({"type": "rate", "max_send_rate": max_send_rate}),
    };
    json!({"kind": kind, "addr": e.addr, "clock_ppm": e.clock_ppm, "echo": e.echo, "nonces": e.nonces})
}

fn endpoint_from_json(v: &Value) -> Result<EndpointSpec, String> {
    let k = v.get("kind").ok_or("missing kind")?;
    let kind = match get_str(k, "type")? {
        "hc" => EndpointKind::Hc { spec: hc_from_json(k.get("spec").ok_or("missing spec")?)?, peer: get_u64(k, "peer")? as usize },
        "client" => EndpointKind::Client { cfg: cfg_from_json(k.get("cfg").ok_or("missing cfg")?)?, server: get_u64(k, "server")? as usize },
        "server" => EndpointKind::Server {
            cfg: cfg_from_json(k.get("cfg").ok_or("missing cfg")?)?,
            max_total: get_u64(k, "max_total")?,
            max_active: get_u64(k, "max_active")?,
            handshake_errors: get_bool(k, "handshake_errors")?,
        },
        "raw" => EndpointKind::Raw,
        "rate" => EndpointKind::Rate { max_send_rate: get_u64(k, "max_send_rate")? as u32 },
        t => return Err(format!("unknown endpoint type {}", t)),
    };
    Ok(EndpointSpec {
        kind,
        addr: get_str(v, "addr")?.to_string(),
        clock_ppm: get_u64(v, "clock_ppm")?,
        echo: get_bool(v, "echo")?,
        nonces: v
            .get("nonces")
            .and_then(|x| x.as_array())
            .map(|a| a.iter().filter_map(|x| x.as_u64()).map(|x| x as u32).collect())
            .unwrap_or_default(),
    })
}

impl Plan {
    pub fn to_json(&self) -> Value {
        let mut fates = Map::new();
        for (link, m) in self.fates.iter() {
            let mut lm = Map::new();
            for (ord, f) in m.iter() {
                lm.insert(ord.to_string(), fate_to_json(f));
            }
            fates.insert(link.clone(), Value::Object(lm));
        }
        let mut params = Map::new();
        for (k, v) in self.params.iter() {
            params.insert(k.clone(), json!(v));
        }
        let mut root = Map::new();
        root.insert("format".into(), json!("uflow-sim-replay/1"));
        root.insert("property".into(), json!(self.property));
        root.insert("scenario".into(), json!(self.scenario));
        root.insert("seed".into(), json!(self.seed));
        root.insert("run".into(), json!(self.run));
        root.insert("end_us".into(), json!(self.end_us));
        root.insert("fate_seed".into(), json!(self.fate_seed));
        root.insert("adversary".into(), json!(self.adversary));
        root.insert("params".into(), Value::Object(params));
        root.insert("endpoints".into(), Value::Array(self.endpoints.iter().map(endpoint_to_json).collect()));
        root.insert(
            "timeline".into(),
            Value::Array(
                self.timeline
                    .iter()
                    .map(|t| {
                        let mut v = op_to_json(&t.op);
                        let m = v.as_object_mut().unwrap();
                        m.insert("t_us".into(), json!(t.t_us));
                        if t.rank != 0 {
                            m.insert("rank".into(), json!(t.rank));
                        }
                        v
                    })
                    .collect(),
            ),
        );
        root.insert("fates".into(), Value::Object(fates));
        if let Some(e) = &self.expect {
            root.insert("expect".into(), json!({"violation": e.violation, "at_call": e.at_call, "digest": e.digest}));
        }
        Value::Object(root)
    }

    pub fn from_json(v: &Value) -> Result<Plan, String> {
        if get_str(v, "format")? != "uflow-sim-replay/1" {
            return Err("unknown replay format".into());
        }
        let mut plan = Plan::new(get_str(v, "property")?, get_str(v, "scenario")?, get_u64(v, "seed")?, get_u64(v, "run")?);
        plan.end_us = get_u64(v, "end_us")?;
        plan.fate_seed = v.get("fate_seed").and_then(|x| x.as_u64());
        plan.adversary = v.get("adversary").and_then(|x| x.as_str()).unwrap_or("").to_string();
        if let Some(p) = v.get("params").and_then(|x| x.as_object()) {
            for (k, x) in p.iter() {
                if let Some(f) = x.as_f64() {
                    plan.params.insert(k.clone(), f);
                }
            }
        }
        for e in v.get("endpoints").and_then(|x| x.as_array()).ok_or("missing endpoints")? {
            plan.endpoints.push(endpoint_from_json(e)?);
        }
        for t in v.get("timeline").and_then(|x| x.as_array()).ok_or("missing timeline")? {
            plan.timeline.push(TimedOp {
                t_us: get_u64(t, "t_us")?,
                rank: t.get("rank").and_then(|x| x.as_u64()).unwrap_or(0) as u32,
                op: op_from_json(t)?,
            });
        }
        if let Some(f) = v.get("fates").and_then(|x| x.as_object()) {
            for (link, m) in f.iter() {
                let mut lm = BTreeMap::new();
                for (ord, fv) in m.as_object().ok_or("bad fates")?.iter() {
                    lm.insert(ord.parse::<u64>().map_err(|e| e.to_string())?, fate_from_json(fv)?);
                }
                plan.fates.insert(link.clone(), lm);
            }
        }
        if let Some(e) = v.get("expect") {
            plan.expect = Some(Expect {
                violation: get_str(e, "violation")?.to_string(),
                at_call: get_u64(e, "at_call")?,
                digest: get_str(e, "digest")?.to_string(),
            });
        }
        Ok(plan)
    }

    pub fn load(path: &str) -> Result<Plan, String> {
        let text = std::fs::read_to_string(path).map_err(|e| format!("{}: {}", path, e))?;
        let v: Value = serde_json::from_str(&text).map_err(|e| format!("{}: {}", path, e))?;
        Plan::from_json(&v)
    }

    pub fn save(&self, path: &str) -> Result<(), String> {
        if let Some(dir) = std::path::Path::new(path).parent() {
            let _ = std::fs::create_dir_all(dir);
        }
        let text = serde_json::to_string(&self.to_json()).map_err(|e| e.to_string())?;
        std::fs::write(path, text).map_err(|e| format!("{}: {}", path, e))
    }
}
