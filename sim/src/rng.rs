//! Seeded pseudo-randomness. One integer decides everything: every generator is derived from
//! VERIF_SEED by hashing, and per-datagram fates use *keyed* streams so that the fate of datagram
//! n does not depend on how many draws happened before it.

#[inline]
pub fn mix64(mut z: u64) -> u64 {
    z = z.wrapping_add(0x9E3779B97F4A7C15);
    z = (z ^ (z >> 30)).wrapping_mul(0xBF58476D1CE4E5B9);
    z = (z ^ (z >> 27)).wrapping_mul(0x94D049BB133111EB);
    z ^ (z >> 31)
}

/// Hash of a key tuple.
pub fn key(parts: &[u64]) -> u64 {
    let mut h = 0x243F6A8885A308D3u64;
    for &p in parts {
        h = mix64(h ^ mix64(p));
    }
    h
}

pub fn str_key(s: &str) -> u64 {
    let mut h = 0xcbf29ce484222325u64;
    for b in s.bytes() {
        h ^= b as u64;
        h = h.wrapping_mul(0x100000001b3);
    }
    h
}

#[derive(Clone, Debug)]
pub struct Rng {
    state: u64,
}

impl Rng {
    pub fn new(seed: u64) -> Self {
        Self { state: mix64(seed ^ 0x5851F42D4C957F2D) }
    }

    pub fn keyed(parts: &[u64]) -> Self {
        Self::new(key(parts))
    }

    #[inline]
    pub fn u64(&mut self) -> u64 {
        self.state = self.state.wrapping_add(0x9E3779B97F4A7C15);
        let mut z = self.state;
        z = (z ^ (z >> 30)).wrapping_mul(0xBF58476D1CE4E5B9);
        z = (z ^ (z >> 27)).wrapping_mul(0x94D049BB133111EB);
        z ^ (z >> 31)
    }

    pub fn u32(&mut self) -> u32 {
        (self.u64() >> 32) as u32
    }

    /// Uniform in [0, n); n = 0 gives 0.
    pub fn below(&mut self, n: u64) -> u64 {
        if n == 0 {
            return 0;
        }
        ((self.u64() as u128 * n as u128) >> 64) as u64
    }

    /// Uniform in [lo, hi] inclusive.
    pub fn range(&mut self, lo: u64, hi: u64) -> u64 {
        if hi <= lo {
            return lo;
        }
        lo + self.below(hi - lo + 1)
    }

    pub fn f64(&mut self) -> f64 {
        (self.u64() >> 11) as f64 / (1u64 << 53) as f64
    }

    pub fn chance(&mut self, p: f64) -> bool {
        self.f64() < p
    }

    pub fn pick<'a, T>(&mut self, items: &'a [T]) -> &'a T {
        &items[self.below(items.len() as u64) as usize]
    }

    /// Log-uniform in [lo, hi].
    pub fn log_range(&mut self, lo: u64, hi: u64) -> u64 {
        let lo_f = (lo.max(1)) as f64;
        let hi_f = (hi.max(1)) as f64;
        let v = (lo_f.ln() + self.f64() * (hi_f.ln() - lo_f.ln())).exp();
        (v.round() as u64).clamp(lo, hi)
    }

    pub fn fork(&mut self, label: u64) -> Rng {
        Rng::new(key(&[self.u64(), label]))
    }
}

/// Running 64-bit digest (FNV-1a over words, finalised with mix64).
#[derive(Clone, Debug)]
pub struct Digest {
    h: u64,
}

impl Digest {
    pub fn new() -> Self {
        Self { h: 0xcbf29ce484222325 }
    }

    #[inline]
    pub fn word(&mut self, w: u64) {
        self.h = (self.h ^ w).wrapping_mul(0x100000001b3);
        self.h ^= self.h >> 29;
    }

    pub fn bytes(&mut self, b: &[u8]) {
        self.word(b.len() as u64);
        let mut chunks = b.chunks_exact(8);
        for c in &mut chunks {
            self.word(u64::from_le_bytes([c[0], c[1], c[2], c[3], c[4], c[5], c[6], c[7]]));
        }
        let rem = chunks.remainder();
        if !rem.is_empty() {
            let mut w = [0u8; 8];
            w[..rem.len()].copy_from_slice(rem);
            self.word(u64::from_le_bytes(w));
        }
    }

    pub fn finish(&self) -> u64 {
        mix64(self.h)
    }
}
