//! Minimisation before reporting: delta debugging over the timeline and the explicit fates,
//! then payload shrinking. A candidate is kept only if the same property and oracle clause still
//! fires. Budgeted (candidate runs and wall time).

use crate::plan::*;
use crate::runner::{run_plan, CheckDef, Family};
use crate::world::Violation;
use std::time::Instant;

struct Budget {
    tried: u64,
    max: u64,
    start: Instant,
    max_s: u64,
}

impl Budget {
    fn ok(&self) -> bool {
        self.tried < self.max && self.start.elapsed().as_secs() < self.max_s
    }
}

fn ddmin<T: Clone>(mut items: Vec<T>, budget: &mut Budget, test: &mut dyn FnMut(&[T], &mut Budget) -> bool) -> Vec<T> {
    let mut n = 2usize;
    while items.len() >= 1 && budget.ok() {
        let len = items.len();
        let chunk = (len + n - 1) / n;
        let mut reduced = false;
        let mut i = 0;
        while i * chunk < len && budget.ok() {
            let lo = i * chunk;
            let hi = ((i + 1) * chunk).min(len);
            let mut cand: Vec<T> = Vec::with_capacity(len - (hi - lo));
            cand.extend_from_slice(&items[..lo]);
            cand.extend_from_slice(&items[hi..]);
            if test(&cand, budget) {
                items = cand;
                n = (n - 1).max(2);
                reduced = true;
                break;
            }
            i += 1;
        }
        if !reduced {
            if n >= len {
                break;
            }
            n = (n * 2).min(len);
        }
    }
    items
}

pub fn minimise(def: &CheckDef, fam: &Family, plan: Plan, viol: &Violation) -> (Plan, Violation, u64) {
    let mut budget = Budget { tried: 0, max: 1500, start: Instant::now(), max_s: 90 };
    let mut best = plan;
    let mut best_viol = viol.clone();
    let clause = viol.clause.clone();

    let mut try_plan = |p: &Plan, budget: &mut Budget| -> Option<Violation> {
        budget.tried += 1;
        match run_plan(def, fam, p, false) {
            Ok(v) => v.violation.filter(|x| x.clause == clause),
            Err(_) => None,
        }
    };

    // 1. ddmin over removable timeline operations
    for pass in 0..2 {
        if fam.keep_workload && pass > 0 {
            break;
        }
        // twin families: frames common to both executions shape the traffic the twin-only
        // frames were forged against; only the twin-only ones (which must have no effect) may go
        let has_twin = best.timeline.iter().any(|t| matches!(t.op, Op::Inject { twin: true, .. }));
        let removable: Vec<usize> = best
            .timeline
            .iter()
            .enumerate()
            .filter(|(_, t)| match (&t.op, pass) {
                // adversarial families: only the adversary's own injections may go
                (Op::Inject { twin, .. }, 0) => *twin || !has_twin,
                (_, _) if fam.keep_workload => false,
                (Op::Create { .. }, _) => false,
                // the fair phase (applications keep stepping) is an assumption of the liveness
                // clauses, never something to minimise away
                (Op::StepEvery { .. } | Op::Mark { .. } | Op::Link { .. }, _) => false,
                (Op::Step { .. } | Op::Flush { .. }, 0) => false,
                (_, 0) => true,
                (Op::Step { .. } | Op::Flush { .. }, _) => true,
                _ => false,
            })
            .map(|(i, _)| i)
            .collect();
        if removable.is_empty() {
            continue;
        }
        let base = best.clone();
        let all: Vec<usize> = removable.clone();
        let mut last_ok: Option<(Plan, Violation)> = None;
        let kept = ddmin(removable, &mut budget, &mut |kept: &[usize], budget: &mut Budget| {
            let mut cand = base.clone();
            let keep: std::collections::BTreeSet<usize> = kept.iter().cloned().collect();
            let drop: std::collections::BTreeSet<usize> = all.iter().cloned().filter(|i| !keep.contains(i)).collect();
            cand.timeline = base.timeline.iter().enumerate().filter(|(i, _)| !drop.contains(i)).map(|(_, t)| t.clone()).collect();
            if let Some(v) = try_plan(&cand, budget) {
                last_ok = Some((cand, v));
                true
            } else {
                false
            }
        });
        let _ = kept;
        if let Some((p, v)) = last_ok {
            best = p;
            best_viol = v;
        }
    }

    // 2. ddmin over non-plain fates (removing = deliver normally)
    let odd: Vec<(String, u64)> = best.fates.iter().flat_map(|(l, m)| m.iter().filter(|(_, f)| !f.is_plain()).map(move |(o, _)| (l.clone(), *o))).collect();
    if !odd.is_empty() && budget.ok() {
        let base = best.clone();
        let all = odd.clone();
        let mut last_ok: Option<(Plan, Violation)> = None;
        ddmin(odd, &mut budget, &mut |kept: &[(String, u64)], budget: &mut Budget| {
            let mut cand = base.clone();
            for (l, o) in all.iter() {
                if !kept.contains(&(l.clone(), *o)) {
                    // default delay: the smallest plain delay seen on that link, else 10 ms
                    let d = base.fates.get(l).and_then(|m| m.values().filter(|f| f.is_plain()).map(|f| f.copies[0].delay_us).min()).unwrap_or(10_000);
                    cand.fates.get_mut(l).unwrap().insert(*o, Fate::deliver(d));
                }
            }
            if let Some(v) = try_plan(&cand, budget) {
                last_ok = Some((cand, v));
                true
            } else {
                false
            }
        });
        if let Some((p, v)) = last_ok {
            best = p;
            best_viol = v;
        }
    }

    // 3. shrink payload lengths
    let sends: Vec<usize> = best.timeline.iter().enumerate().filter(|(_, t)| matches!(t.op, Op::Send { .. })).map(|(i, _)| i).collect();
    if sends.len() <= 40 && !fam.keep_workload {
        for i in sends {
            for target in [12u32, 1448, 1449] {
                if !budget.ok() {
                    break;
                }
                let mut cand = best.clone();
                if let Op::Send { len, .. } = &mut cand.timeline[i].op {
                    if *len <= target {
                        continue;
                    }
                    *len = target;
                }
                if let Some(v) = try_plan(&cand, &mut budget) {
                    best = cand;
                    best_viol = v;
                    break;
                }
            }
        }
    }

    // forget fates of datagrams that no longer exist is not needed: unused entries are harmless
    (best, best_viol, budget.tried)
}

/// Hang plans are minimised through child processes (an in-process candidate could never be
/// interrupted): truncate the timeline, then ddmin with a short alarm.
pub fn minimise_hang(def: &CheckDef, path: &str) -> Option<String> {
    let plan = Plan::load(path).ok()?;
    let exe = std::env::current_exe().ok()?;
    let tmp = format!("{}.cand.json", path);
    let mut tried = 0u64;
    let start = Instant::now();
    let mut test = |p: &Plan| -> bool {
        tried += 1;
        if p.save(&tmp).is_err() {
            return false;
        }
        let out = std::process::Command::new(&exe).arg("replay").arg(&tmp).arg("--alarm").arg("2").arg("--expect-hang").output();
        matches!(out, Ok(o) if o.status.code() == Some(1))
    };
    let mut best = plan.clone();
    if !test(&best) {
        let _ = std::fs::remove_file(&tmp);
        return None;
    }
    let removable: Vec<usize> = best.timeline.iter().enumerate().filter(|(_, t)| !matches!(t.op, Op::Create { .. } | Op::StepEvery { .. } | Op::Mark { .. } | Op::Link { .. })).map(|(i, _)| i).collect();
    let base = best.clone();
    let all = removable.clone();
    let mut budget = Budget { tried: 0, max: 120, start, max_s: 60 };
    let mut last_ok: Option<Plan> = None;
    ddmin(removable, &mut budget, &mut |kept: &[usize], budget: &mut Budget| {
        budget.tried += 1;
        let keep: std::collections::BTreeSet<usize> = kept.iter().cloned().collect();
        let drop: std::collections::BTreeSet<usize> = all.iter().cloned().filter(|i| !keep.contains(i)).collect();
        let mut cand = base.clone();
        cand.timeline = base.timeline.iter().enumerate().filter(|(i, _)| !drop.contains(i)).map(|(_, t)| t.clone()).collect();
        if test(&cand) {
            last_ok = Some(cand);
            true
        } else {
            false
        }
    });
    if let Some(p) = last_ok {
        best = p;
    }
    let _ = std::fs::remove_file(&tmp);
    best.expect = Some(Expect { violation: format!("{}/hang", def.property), at_call: 0, digest: String::new() });
    println!("minimised hang: {} -> {} timeline ops, {} candidate runs", plan.timeline.len(), best.timeline.len(), tried);
    best.save(path).ok()?;
    Some(path.to_string())
}
