//! C15: twin runs. Plan P and plan P' = P plus extra acknowledgement frames delivered to one
//! sender (wrong parity, unknown frames, replays of genuine ack frames, re-packed genuine
//! groups). Same seed, so nonces and fates coincide; the sender's emitted byte stream and its
//! probe must be identical in P and P' at every call.

use crate::adversary::{enc_ack, Seen, DELIVER_RANK_PUB};
use crate::plan::*;
use crate::rng::Rng;
use crate::runner::{run_plan_with, CheckDef, Family, RunVerdict};
use crate::states::StateCoverage;
use crate::world::*;
use std::cell::RefCell;
use std::collections::BTreeMap;
use std::rc::Rc;
use uflow::verif as uv;
use uflow::verif::Serialize;

#[derive(Clone)]
pub struct Snap {
    op: &'static str,
    wire: Vec<Rc<Vec<u8>>>,
    probe: Option<uv::HcProbe>,
}

pub type Baseline = Rc<RefCell<Vec<Snap>>>;

/// Records (baseline) or compares (twin) the behaviour of endpoint `sender`.
pub struct TwinOracle {
    property: &'static str,
    sender: usize,
    baseline: Baseline,
    compare: bool,
    cur: Option<Snap>,
    index: usize,
    pub injected_seen: u64,
    compared: u64,
}

impl TwinOracle {
    pub fn recorder(property: &'static str, sender: usize, baseline: Baseline) -> Self {
        Self { property, sender, baseline, compare: false, cur: None, index: 0, injected_seen: 0, compared: 0 }
    }
    pub fn comparer(property: &'static str, sender: usize, baseline: Baseline) -> Self {
        Self { property, sender, baseline, compare: true, cur: None, index: 0, injected_seen: 0, compared: 0 }
    }
}

fn probe_diff(a: &uv::HcProbe, b: &uv::HcProbe) -> Option<String> {
    macro_rules! cmp {
        ($($f:ident),*) => {
            $( if a.$f != b.$f { return Some(format!("{}: {:?} (without the extra acks) vs {:?} (with them)", stringify!($f), a.$f, b.$f)); } )*
        };
    }
    cmp!(
        rtt_s, rtt_ms, rto_ms, send_rate, prev_loss_rate, rate_mode, nofeedback_exp_ms, nofeedback_idle,
        tx_packet_base_id, tx_packet_next_id, tx_alloc, tx_total_size, send_queue_len, pending_queue_len, resend_queue_len,
        tx_frame_window_base_id, tx_frame_next_id, tx_frame_log_base_id, tx_frame_log_len, flush_alloc, flush_id, sync_timeout_base_ms
    );
    None
}

impl Oracle for TwinOracle {
    fn on(&mut self, rec: &Rec, _cx: &Cx) -> Option<Violation> {
        match rec {
            Rec::Call { ep: Some(ep), op, skipped: false, .. } if *ep == self.sender && !matches!(op, Op::Inject { .. } | Op::ClockJump { .. } | Op::SockErr { .. } | Op::SockCap { .. }) => {
                self.cur = Some(Snap { op: op.name(), wire: Vec::new(), probe: None });
            }
            Rec::Delivered { dst, injected: true, .. } if *dst == self.sender => {
                self.injected_seen += 1;
            }
            Rec::Wire(w) if w.src == self.sender => {
                if let Some(c) = self.cur.as_mut() {
                    c.wire.push(w.bytes.clone());
                }
            }
            Rec::Probe { ep, probe: Probe::Hc(h), .. } if *ep == self.sender => {
                if let Some(c) = self.cur.as_mut() {
                    c.probe = Some(h.clone());
                }
            }
            Rec::CallEnd { call, ep: Some(ep), .. } if *ep == self.sender => {
                let Some(snap) = self.cur.take() else { return None };
                if !self.compare {
                    self.baseline.borrow_mut().push(snap);
                    return None;
                }
                let base = self.baseline.borrow();
                let k = self.index;
                self.index += 1;
                let Some(b) = base.get(k) else {
                    return Some(Violation { property: self.property.into(), clause: "twin_diverged".into(), detail: format!("the run with extra acknowledgements makes more calls into the sender than the run without ({} vs {})", k + 1, base.len()), at_call: *call });
                };
                self.compared += 1;
                if b.op != snap.op {
                    return Some(Violation { property: self.property.into(), clause: "twin_harness_misaligned".into(), detail: format!("call #{} of the sender is {} in one run and {} in the other", k, b.op, snap.op), at_call: *call });
                }
                if b.wire.len() != snap.wire.len() || b.wire.iter().zip(snap.wire.iter()).any(|(x, y)| **x != **y) {
                    let d = format!(
                        "sender call #{} ({}): emitted frames differ: without the extra acks [{}], with them [{}]",
                        k, snap.op,
                        b.wire.iter().map(|x| crate::tracer::frame_summary(x)).collect::<Vec<_>>().join("; "),
                        snap.wire.iter().map(|x| crate::tracer::frame_summary(x)).collect::<Vec<_>>().join("; "));
                    return Some(Violation { property: self.property.into(), clause: "extra_acks_changed_transmissions".into(), detail: d, at_call: *call });
                }
                if let (Some(pa), Some(pb)) = (&b.probe, &snap.probe) {
                    if let Some(d) = probe_diff(pa, pb) {
                        return Some(Violation { property: self.property.into(), clause: "extra_acks_changed_sender_state".into(), detail: format!("sender call #{} ({}): {}", k, snap.op, d), at_call: *call });
                    }
                }
            }
            _ => (),
        }
        None
    }

    fn reach(&self, out: &mut BTreeMap<String, u64>) {
        if self.compare {
            let mut a = |k: &str, v: u64| *out.entry(k.to_string()).or_insert(0) += v;
            a("twin_calls_compared", self.compared);
            a("extra_ack_frames_delivered_to_sender", self.injected_seen);
        }
    }

    fn nontrivial(&self) -> bool {
        !self.compare || (self.injected_seen >= 3 && self.compared >= 20)
    }
}

/// Generates the extra acknowledgement frames of the twin run.
pub struct AckForger {
    rng: Rng,
    sender: usize,
    peer: usize,
    seen: Seen,
    /// genuine ack frames on their way to the sender: (arrival ns, bytes)
    genuine: Vec<(u64, Rc<Vec<u8>>)>,
    count: u64,
    max: u64,
    rate: f64,
    kinds: [bool; 4],
    pub made: [u64; 4],
}

impl AckForger {
    pub fn new(plan: &Plan, sender: usize, peer: usize) -> Self {
        let mut rng = Rng::keyed(&[plan.fate_seed.unwrap_or(0), 0x61636b66]);
        // swarm: each kind enabled with probability 0.6, at least one
        let mut kinds = [rng.chance(0.6), rng.chance(0.6), rng.chance(0.6), rng.chance(0.6)];
        if !kinds.iter().any(|k| *k) {
            kinds[rng.below(4) as usize] = true;
        }
        let rate = *rng.pick(&[0.05, 0.2, 0.6]);
        Self { rng, sender, peer, seen: Seen::default(), genuine: Vec::new(), count: 0, max: plan.param("forge_max", 300.0) as u64, rate, kinds, made: [0; 4] }
    }
}

impl Adversary for AckForger {
    fn on_wire(&mut self, w: &WireRec, _now_us: u64, _plan: &Plan, _out: &mut Vec<TimedOp>) {
        if w.src == self.sender {
            self.seen.observe(&w.bytes);
        } else if w.src == self.peer && w.dst == Some(self.sender) && w.bytes.first() == Some(&FRAME_ACK) {
            // only copies that arrive intact count as "an earlier acknowledgement"
            if let Some(t) = w.fate.copies.iter().zip(w.arrivals_ns.iter()).filter(|(c, _)| c.flips.is_empty() && c.trunc.is_none() && c.replace.is_none()).map(|(_, t)| *t).min() {
                self.genuine.push((t, w.bytes.clone()));
                if self.genuine.len() > 400 {
                    self.genuine.remove(0);
                }
            }
        }
    }

    fn on_call_end(&mut self, _call: u64, ep: Option<usize>, probe: &Probe, now_us: u64, plan: &Plan, out: &mut Vec<TimedOp>) {
        if ep != Some(self.sender) || self.count >= self.max || now_us >= plan.end_us {
            return;
        }
        let Probe::Hc(h) = probe else { return };
        if !self.rng.chance(self.rate) {
            return;
        }
        let now_ns = now_us * 1000;
        // genuine ack frames the sender has certainly consumed by now (arrived before this call)
        let consumed: Vec<Rc<Vec<u8>>> = self.genuine.iter().filter(|(t, _)| *t + 1000 <= now_ns).map(|(_, b)| b.clone()).collect();
        let kind = {
            let enabled: Vec<usize> = (0..4).filter(|k| self.kinds[*k]).collect();
            enabled[self.rng.below(enabled.len() as u64) as usize]
        };
        // window-base fields equal to what the sender already holds: only the groups differ
        let fb = h.tx_frame_window_base_id;
        let pb = h.tx_packet_base_id;
        let bytes: Option<Vec<u8>> = match kind {
            0 => {
                // (i) known frames, wrong parity
                let known: Vec<(u32, bool)> = self.seen.nonces.iter().cloned().filter(|(id, _)| id.wrapping_sub(h.tx_frame_log_base_id) < h.tx_frame_log_len).collect();
                if known.is_empty() {
                    None
                } else {
                    let n = self.rng.range(1, 4);
                    let mut groups = Vec::new();
                    for _ in 0..n {
                        let (base, _) = known[self.rng.below(known.len() as u64) as usize];
                        // the group need not claim its own base frame (no genuine receiver builds
                        // such a group, a forger may)
                        let claim_base = self.rng.chance(0.6);
                        let mut bits = claim_base as u32;
                        let mut parity = if claim_base { self.seen.nonces.iter().find(|(id, _)| *id == base).map(|x| x.1) } else { Some(false) };
                        let p_bit = if claim_base { 0.2 } else { 0.4 };
                        for i in 1..32u32 {
                            if self.rng.chance(p_bit) {
                                if let (Some(p), Some((_, n))) = (parity, self.seen.nonces.iter().find(|(id, _)| *id == base.wrapping_add(i))) {
                                    bits |= 1 << i;
                                    parity = Some(p ^ *n);
                                }
                            }
                        }
                        if let Some(p) = parity {
                            groups.push((base, bits, (!p) as u8));
                        }
                    }
                    if groups.is_empty() { None } else { Some(enc_ack(fb, pb, &groups)) }
                }
            }
            1 => {
                // (ii) groups that touch unknown frames: entirely beyond the next id, or
                // entirely behind the log
                let n = self.rng.range(1, 4);
                let mut groups = Vec::new();
                for _ in 0..n {
                    let base = if self.rng.chance(0.5) {
                        // far beyond: the frame must still not exist when the forged ack is
                        // delivered (up to two minutes later)
                        h.tx_frame_next_id.wrapping_add(0x4000_0000 + self.rng.below(5000) as u32)
                    } else {
                        h.tx_frame_log_base_id.wrapping_sub(32 + self.rng.below(5000) as u32)
                    };
                    let bits = if self.rng.chance(0.5) { 1 } else { self.rng.u32() | 1 };
                    // stay clear of the log: all set bits must name unknown frames
                    let hi = 32 - bits.leading_zeros();
                    let touches = (0..hi).any(|i| base.wrapping_add(i).wrapping_sub(h.tx_frame_log_base_id) < h.tx_frame_log_len);
                    if !touches {
                        groups.push((base, bits, self.rng.below(2) as u8));
                    }
                }
                if groups.is_empty() { None } else { Some(enc_ack(fb, pb, &groups)) }
            }
            2 => {
                // (iii) exact copy of a genuine ack frame, replayed
                if consumed.is_empty() { None } else { Some((*consumed[self.rng.below(consumed.len() as u64) as usize]).clone()) }
            }
            _ => {
                // (iv) genuine groups re-packed into a new frame
                if consumed.is_empty() {
                    None
                } else {
                    let mut groups = Vec::new();
                    for _ in 0..self.rng.range(1, 3) {
                        let b = &consumed[self.rng.below(consumed.len() as u64) as usize];
                        if let Some(uv::Frame::AckFrame(f)) = uv::Frame::read(b) {
                            for g in f.frame_acks.iter() {
                                groups.push((g.base_id, g.bitfield, g.nonce as u8));
                            }
                        }
                    }
                    if groups.is_empty() { None } else { Some(enc_ack(fb, pb, &groups)) }
                }
            }
        };
        if let Some(bytes) = bytes {
            self.made[kind] += 1;
            self.count += 1;
            // one step later ... minutes later
            let dt = match self.rng.below(4) {
                0 => 1,
                1 => self.rng.range(1, 50_000),
                2 => self.rng.range(50_000, 3_000_000),
                _ => self.rng.range(3_000_000, 120_000_000),
            };
            out.push(TimedOp { t_us: now_us + dt, rank: DELIVER_RANK_PUB, op: Op::Inject { to: self.sender, from: self.peer, bytes, twin: true } });
        }
    }
}

/// Runs baseline (twin operations removed) and twin, comparing the sender's behaviour.
/// The twin execution may stop early (at its violation) while the baseline ran to the end: the
/// replay file must also carry the fates the baseline drew for the datagrams the twin never sent.
/// Both executions key fates by (link, ordinal), so the union is well defined.
fn merge_baseline_fates(v: &mut RunVerdict, b: &RunVerdict) {
    if let (Some(m), Some(bm)) = (v.materialised.as_mut(), b.materialised.as_ref()) {
        for (link, fates) in bm.fates.iter() {
            let dst = m.fates.entry(link.clone()).or_default();
            for (ord, f) in fates.iter() {
                dst.entry(*ord).or_insert_with(|| f.clone());
            }
        }
    }
}

pub fn twin_run(def: &CheckDef, fam: &Family, plan: &Plan, materialise: bool) -> Result<RunVerdict, String> {
    let sender = plan.param("twin_sender", 0.0) as usize;
    let baseline: Baseline = Rc::new(RefCell::new(Vec::new()));
    let mut base_plan = plan.clone();
    base_plan.timeline.retain(|t| !matches!(t.op, Op::Inject { twin: true, .. }));
    base_plan.adversary = String::new();
    // the baseline runs without adversary; fates come from the same keyed stream
    let base_fam = Family { adversary: None, custom: None, ..fam.clone() };
    let b = run_plan_with(def, &base_fam, &base_plan, materialise, vec![Box::new(TwinOracle::recorder(def.property, sender, baseline.clone()))])?;
    if b.violation.is_some() || b.aborted_by_panic.is_some() {
        return Ok(b);
    }
    let twin_fam = Family { custom: None, ..fam.clone() };
    let oracles: Vec<Box<dyn Oracle>> = vec![Box::new(TwinOracle::comparer(def.property, sender, baseline.clone())), Box::new(StateCoverage::new())];
    let mut v = run_plan_with(def, &twin_fam, plan, materialise, oracles)?;
    // digest covers both executions
    v.digest ^= b.digest.rotate_left(17);
    merge_baseline_fates(&mut v, &b);
    Ok(v)
}

// ---------------------------------------------------------------------------------------------
// Non-interference twin (C03, World B): the event streams of the genuine endpoints must be the
// same with and without the attacker's datagrams.

#[derive(Clone, PartialEq, Debug)]
pub struct EvSnap {
    t_ns: u64,
    kind: u8,
    len: usize,
    hash: u64,
}

pub type EvBaseline = Rc<RefCell<BTreeMap<(usize, Option<usize>), Vec<EvSnap>>>>;

pub struct EventTwin {
    property: &'static str,
    baseline: EvBaseline,
    compare: bool,
    pos: BTreeMap<(usize, Option<usize>), usize>,
    compared: u64,
    injected: u64,
}

impl EventTwin {
    pub fn new(property: &'static str, baseline: EvBaseline, compare: bool) -> Self {
        Self { property, baseline, compare, pos: BTreeMap::new(), compared: 0, injected: 0 }
    }
}

fn genuine(plan: &Plan, ep: usize) -> bool {
    matches!(plan.endpoints[ep].kind, EndpointKind::Client { .. } | EndpointKind::Server { .. })
}

impl Oracle for EventTwin {
    fn on(&mut self, rec: &Rec, cx: &Cx) -> Option<Violation> {
        match rec {
            Rec::Delivered { injected: true, .. } => self.injected += 1,
            Rec::Event { call, t_ns, ep, peer, peer_addr, ev, .. } => {
                if !genuine(cx.plan, *ep) {
                    return None;
                }
                // server events about the attacker's own addresses are not part of the claim
                if let Some(a) = peer_addr {
                    match cx.ep_of(a) {
                        Some(p) if genuine(cx.plan, p) => (),
                        _ => return None,
                    }
                }
                let (kind, len, hash) = match ev {
                    AppEvent::Connect => (1u8, 0, 0),
                    AppEvent::Disconnect => (2, 0, 0),
                    AppEvent::Error(k) => (10 + *k, 0, 0),
                    AppEvent::Receive(p) => {
                        let mut d = crate::rng::Digest::new();
                        d.bytes(p);
                        (3, p.len(), d.finish())
                    }
                };
                let snap = EvSnap { t_ns: *t_ns, kind, len, hash };
                let key = (*ep, *peer);
                if !self.compare {
                    self.baseline.borrow_mut().entry(key).or_default().push(snap);
                    return None;
                }
                let base = self.baseline.borrow();
                let k = *self.pos.get(&key).unwrap_or(&0);
                self.pos.insert(key, k + 1);
                self.compared += 1;
                let expected = base.get(&key).and_then(|v| v.get(k));
                if expected != Some(&snap) {
                    let d = format!(
                        "event #{} of endpoint {} (peer {:?}) differs: without the attacker's datagrams {:?}, with them {:?} (kind 1 = Connect, 2 = Disconnect, 3 = Receive, 10+ = Error)",
                        k, ep, peer, expected, snap);
                    return Some(Violation { property: self.property.into(), clause: "attack_changed_genuine_events".into(), detail: d, at_call: *call });
                }
            }
            Rec::End { .. } => {
                if self.compare {
                    let base = self.baseline.borrow();
                    for (key, v) in base.iter() {
                        let got = *self.pos.get(key).unwrap_or(&0);
                        if got < v.len() {
                            let d = format!("endpoint {} (peer {:?}) saw {} events without the attacker's datagrams but only {} with them; first missing: {:?}", key.0, key.1, v.len(), got, v[got]);
                            return Some(Violation { property: self.property.into(), clause: "attack_suppressed_genuine_events".into(), detail: d, at_call: 0 });
                        }
                    }
                }
            }
            _ => (),
        }
        None
    }

    fn reach(&self, out: &mut BTreeMap<String, u64>) {
        if self.compare {
            let mut a = |k: &str, v: u64| *out.entry(k.to_string()).or_insert(0) += v;
            a("genuine_events_compared_with_attack_free_twin", self.compared);
            a("attacker_datagrams_delivered", self.injected);
        }
    }

    fn nontrivial(&self) -> bool {
        !self.compare || (self.compared >= 3 && self.injected >= 3)
    }
}

pub fn twin_events_run(def: &CheckDef, fam: &Family, plan: &Plan, materialise: bool) -> Result<RunVerdict, String> {
    let baseline: EvBaseline = Rc::new(RefCell::new(BTreeMap::new()));
    let mut base_plan = plan.clone();
    base_plan.timeline.retain(|t| !matches!(t.op, Op::Inject { twin: true, .. }));
    base_plan.adversary = String::new();
    let base_fam = Family { adversary: None, custom: None, ..fam.clone() };
    let b = run_plan_with(def, &base_fam, &base_plan, materialise, vec![Box::new(EventTwin::new(def.property, baseline.clone(), false))])?;
    if b.violation.is_some() || b.aborted_by_panic.is_some() {
        return Ok(b);
    }
    let twin_fam = Family { custom: None, ..fam.clone() };
    let oracles: Vec<Box<dyn Oracle>> = vec![Box::new(EventTwin::new(def.property, baseline.clone(), true)), Box::new(StateCoverage::new())];
    let mut v = run_plan_with(def, &twin_fam, plan, materialise, oracles)?;
    v.digest ^= b.digest.rotate_left(17);
    merge_baseline_fates(&mut v, &b);
    Ok(v)
}
