//! C15: twin runs. Plan P and plan P' = P plus extra acknowledgement frames delivered to one
//! sender (wrong parity, unknown frames, replays of genuine ack frames, re-packed genuine
//! groups). Same seed, so nonces and fates coincide; the sender's emitted byte stream and its
//! probe must be identical in P and P' at every call.

use crate::adversary::{enc_ack, Seen, DELIVER_RANK_PUB};
use crate::plan::*;
use crate::rng::Rng;
use crate::runner::{run_plan_with, CheckDef, Family, RunVerdict};
use crate::states::StateCoverage;
use crate::world::*;
use std::cell::RefCell;
use std::collections::BTreeMap;
use std::rc::Rc;
use uflow::verif as uv;
use uflow::verif::Serialize;

#[derive(Clone)]
pub struct Snap {
    op: &'static str,
    wire: Vec<Rc<Vec<u8>>>,
    probe: Option<uv::HcProbe>,
}

pub type Baseline = Rc<RefCell<Vec<Snap>>>;

/// Records (baseline) or compares (twin) the behaviour of endpoint `sender`.
pub struct TwinOracle {
    property: &'static str,
    sender: usize,
    baseline: Baseline,
    compare: bool,
    cur: Option<Snap>,
    index: usize,
    pub injected_seen: u64,
    compared: u64,
}

impl TwinOracle {
    /// Records the sender's behaviour in the execution that receives the extra acknowledgements.
    pub fn recorder(property: &'static str, sender: usize, baseline: Baseline) -> Self {
        Self { property, sender, baseline, compare: false, cur: None, index: 0, injected_seen: 0, compared: 0 }
    }
    /// Compares the execution without the extra acknowledgements against the recording.
    pub fn comparer(property: &'static str, sender: usize, baseline: Baseline) -> Self {
        Self { property, sender, baseline, compare: true, cur: None, index: 0, injected_seen: 0, compared: 0 }
    }
}

fn probe_diff(a: &uv::HcProbe, b: &uv::HcProbe) -> Option<String> {
    macro_rules! cmp {
        ($($f:ident),*) => {
            $( if a.$f != b.$f { return Some(format!("{}: {:?} (without the extra acks) vs {:?} (with them)", stringify!($f), a.$f, b.$f)); } )*
        };
    }
    cmp!(
        rtt_s, rtt_ms, rto_ms, send_rate, prev_loss_rate, rate_mode, nofeedback_exp_ms, nofeedback_idle,
        tx_packet_base_id, tx_packet_next_id, tx_alloc, tx_total_size, send_queue_len, pending_queue_len, resend_queue_len,
        tx_frame_window_base_id, tx_frame_next_id, tx_frame_log_base_id, tx_frame_log_len, flush_alloc, flush_id, sync_timeout_base_ms
    );
    None
}

impl Oracle for TwinOracle {
    fn on(&mut self, rec: &Rec, _cx: &Cx) -> Option<Violation> {
        match rec {
            Rec::Call { ep: Some(ep), op, skipped: false, .. } if *ep == self.sender && !matches!(op, Op::Inject { .. } | Op::ClockJump { .. } | Op::SockErr { .. } | Op::SockCap { .. }) => {
                self.cur = Some(Snap { op: op.name(), wire: Vec::new(), probe: None });
            }
            Rec::Delivered { dst, injected: true, .. } if *dst == self.sender => {
                self.injected_seen += 1;
            }
            Rec::Wire(w) if w.src == self.sender => {
                if let Some(c) = self.cur.as_mut() {
                    c.wire.push(w.bytes.clone());
                }
            }
            Rec::Probe { ep, probe: Probe::Hc(h), .. } if *ep == self.sender => {
                if let Some(c) = self.cur.as_mut() {
                    c.probe = Some(h.clone());
                }
            }
            Rec::CallEnd { call, ep: Some(ep), .. } if *ep == self.sender => {
                let Some(snap) = self.cur.take() else { return None };
                if !self.compare {
                    self.baseline.borrow_mut().push(snap);
                    return None;
                }
                let base = self.baseline.borrow();
                let k = self.index;
                self.index += 1;
                let Some(b) = base.get(k) else {
                    return Some(Violation { property: self.property.into(), clause: "twin_diverged".into(), detail: format!("the run without the extra acknowledgements makes more calls into the sender than the run with them ({} vs {})", k + 1, base.len()), at_call: *call });
                };
                self.compared += 1;
                if b.op != snap.op {
                    return Some(Violation { property: self.property.into(), clause: "twin_harness_misaligned".into(), detail: format!("call #{} of the sender is {} in one run and {} in the other", k, b.op, snap.op), at_call: *call });
                }
                if b.wire.len() != snap.wire.len() || b.wire.iter().zip(snap.wire.iter()).any(|(x, y)| **x != **y) {
                    let d = format!(
                        "sender call #{} ({}): emitted frames differ: without the extra acks [{}], with them [{}]",
                        k, snap.op,
                        snap.wire.iter().map(|x| crate::tracer::frame_summary(x)).collect::<Vec<_>>().join("; "),
                        b.wire.iter().map(|x| crate::tracer::frame_summary(x)).collect::<Vec<_>>().join("; "));
                    return Some(Violation { property: self.property.into(), clause: "extra_acks_changed_transmissions".into(), detail: d, at_call: *call });
                }
                if let (Some(pa), Some(pb)) = (&snap.probe, &b.probe) {
                    if let Some(d) = probe_diff(pa, pb) {
                        return Some(Violation { property: self.property.into(), clause: "extra_acks_changed_sender_state".into(), detail: format!("sender call #{} ({}): {}", k, snap.op, d), at_call: *call });
                    }
                }
            }
            _ => (),
        }
        None
    }

    fn reach(&self, out: &mut BTreeMap<String, u64>) {
        let mut a = |k: &str, v: u64| *out.entry(k.to_string()).or_insert(0) += v;
        if self.compare {
            a("twin_calls_compared", self.compared);
        } else {
            a("extra_ack_frames_delivered_to_sender", self.injected_seen);
        }
    }

    fn nontrivial(&self) -> bool {
        if self.compare { self.compared >= 20 } else { self.injected_seen >= 3 }
    }
}

/// Every RTT sample the sender feeds into its estimate is `now - send time of the newest frame
/// acknowledged for the first time since the previous sample`: frames an acknowledgement merely
/// repeats contribute nothing. Send times are taken from the wire. An implementation may stamp a
/// frame with the time of the flush that emits it (uflow since the stale-stamp repair; the clock
/// value the sender holds when the emitting call returns, simulated time does not advance within a
/// call) or with the time of the step() before that flush (the clock value it held before the
/// call): the property does not say which, so either is accepted, but nothing else. First
/// acknowledgements are taken from the trace.
pub struct RttSampleOracle {
    property: &'static str,
    sender: usize,
    /// the sender's stored clock (ms) as of its latest probe
    clock_ms: u64,
    /// frame id -> (clock before the emitting call, clock after it)
    send_ms: BTreeMap<u32, (u64, u64)>,
    /// frames that left during the current call; their second stamp is the probe that follows it
    awaiting: Vec<u32>,
    pending: Option<(u64, u64)>,
    unknown: bool,
    checked: u64,
}

impl RttSampleOracle {
    pub fn new(property: &'static str, sender: usize) -> Self {
        Self { property, sender, clock_ms: 0, send_ms: BTreeMap::new(), awaiting: Vec::new(), pending: None, unknown: false, checked: 0 }
    }
}

impl Oracle for RttSampleOracle {
    fn on(&mut self, rec: &Rec, _cx: &Cx) -> Option<Violation> {
        match rec {
            Rec::Probe { ep, probe: Probe::Hc(h), .. } if *ep == self.sender => {
                for id in self.awaiting.drain(..) {
                    self.send_ms.insert(id, (self.clock_ms, h.now_ms));
                }
                self.clock_ms = h.now_ms;
                while self.send_ms.len() > 20_000 {
                    let k = *self.send_ms.keys().next().unwrap();
                    self.send_ms.remove(&k);
                }
            }
            Rec::Wire(w) if w.src == self.sender && w.bytes.first() == Some(&FRAME_DATA) && w.bytes.len() >= 5 => {
                let id = u32::from_be_bytes([w.bytes[1], w.bytes[2], w.bytes[3], w.bytes[4]]);
                self.awaiting.push(id);
            }
            Rec::Trace { call, ep, ev, .. } if *ep == self.sender => match ev {
                uv::trace::Event::FrameAcked { frame_id } => match self.send_ms.get(frame_id) {
                    Some(t) => self.pending = Some(self.pending.map_or(*t, |p| if t.1 >= p.1 { *t } else { p })),
                    None => self.unknown = true,
                },
                uv::trace::Event::Feedback { now_ms, rtt_sample_ms, .. } => {
                    let (pending, unknown) = (self.pending.take(), std::mem::take(&mut self.unknown));
                    // a report needs at least one frame acknowledged for the first time since the
                    // previous report: an acknowledgement that was already reported must not
                    // move RTT, rate or timers a second time
                    if pending.is_none() && !unknown {
                        let d = format!("sender {}: feedback reported at {} ms (RTT sample {} ms) although no frame has been acknowledged for the first time since the previous report", ep, now_ms, rtt_sample_ms);
                        return Some(Violation { property: self.property.into(), clause: "feedback_without_fresh_ack".into(), detail: d, at_call: *call });
                    }
                    if let (Some(t), false) = (pending, unknown) {
                        self.checked += 1;
                        let expected = now_ms.saturating_sub(t.1);
                        let expected_stale = now_ms.saturating_sub(t.0);
                        if *rtt_sample_ms != expected && *rtt_sample_ms != expected_stale {
                            let d = format!("sender {}: RTT sample {} ms at {} ms, but the newest frame acknowledged for the first time since the previous sample was sent at {} ms (sample should be {} ms; {} ms if frames carry the time of the step before their flush): an already acknowledged frame influenced the sample", ep, rtt_sample_ms, now_ms, t.1, expected, expected_stale);
                            return Some(Violation { property: self.property.into(), clause: "rtt_sample_not_from_fresh_ack".into(), detail: d, at_call: *call });
                        }
                    }
                }
                _ => (),
            },
            _ => (),
        }
        None
    }

    fn reach(&self, out: &mut BTreeMap<String, u64>) {
        *out.entry("rtt_samples_checked_against_first_acknowledgements".to_string()).or_insert(0) += self.checked;
    }

    fn nontrivial(&self) -> bool {
        true
    }
}

/// Generates the extra acknowledgement frames of the twin run.
pub struct AckForger {
    rng: Rng,
    sender: usize,
    peer: usize,
    seen: Seen,
    /// genuine ack frames on their way to the sender: (arrival ns, bytes)
    genuine: Vec<(u64, Rc<Vec<u8>>)>,
    count: u64,
    max: u64,
    rate: f64,
    kinds: [bool; 5],
    pub made: [u64; 5],
    /// frames this forger has already acknowledged with a correct nonce (in both executions)
    forged_acked: std::collections::BTreeSet<u32>,
}

impl AckForger {
    pub fn new(plan: &Plan, sender: usize, peer: usize) -> Self {
        let mut rng = Rng::keyed(&[plan.fate_seed.unwrap_or(0), 0x61636b66]);
        // swarm: each kind enabled with probability 0.6, at least one
        let mut kinds = [rng.chance(0.6), rng.chance(0.6), rng.chance(0.6), rng.chance(0.6), rng.chance(0.4)];
        if !kinds.iter().any(|k| *k) {
            kinds[rng.below(5) as usize] = true;
        }
        let rate = *rng.pick(&[0.05, 0.2, 0.6]);
        Self { rng, sender, peer, seen: Seen::default(), genuine: Vec::new(), count: 0, max: plan.param("forge_max", 300.0) as u64, rate, kinds, made: [0; 5], forged_acked: Default::default() }
    }
}

impl Adversary for AckForger {
    fn on_wire(&mut self, w: &WireRec, _now_us: u64, _plan: &Plan, _out: &mut Vec<TimedOp>) {
        if w.src == self.sender {
            self.seen.observe(&w.bytes);
        } else if w.src == self.peer && w.dst == Some(self.sender) && w.bytes.first() == Some(&FRAME_ACK) {
            // only copies that arrive intact count as "an earlier acknowledgement"
            if let Some(t) = w.fate.copies.iter().zip(w.arrivals_ns.iter()).filter(|(c, _)| c.flips.is_empty() && c.trunc.is_none() && c.replace.is_none()).map(|(_, t)| *t).min() {
                self.genuine.push((t, w.bytes.clone()));
                if self.genuine.len() > 400 {
                    self.genuine.remove(0);
                }
            }
        }
    }

    fn on_call_end(&mut self, _call: u64, ep: Option<usize>, probe: &Probe, now_us: u64, plan: &Plan, out: &mut Vec<TimedOp>) {
        if ep != Some(self.sender) || self.count >= self.max || now_us >= plan.end_us {
            return;
        }
        let Probe::Hc(h) = probe else { return };
        if !self.rng.chance(self.rate) {
            return;
        }
        let now_ns = now_us * 1000;
        // genuine ack frames the sender has certainly consumed by now (arrived before this call)
        let consumed: Vec<Rc<Vec<u8>>> = self.genuine.iter().filter(|(t, _)| *t + 1000 <= now_ns).map(|(_, b)| b.clone()).collect();
        let kind = {
            let enabled: Vec<usize> = (0..5).filter(|k| self.kinds[*k]).collect();
            enabled[self.rng.below(enabled.len() as u64) as usize]
        };
        // window-base fields equal to what the sender already holds: only the groups differ
        let fb = h.tx_frame_window_base_id;
        let mut pb = h.tx_packet_base_id;
        // ... except that a quarter of the worthless frames (kinds i and ii) carry a packet window
        // base that is no packet id at all: its low 20 bits name a packet just inside the
        // sender's window, higher bits are set. Such a frame acknowledges nothing whatsoever
        // (decided from values at hand, no draw: the other choices stay what they were)
        if kind <= 1 && (fb ^ pb ^ now_us as u32).wrapping_mul(0x9E37_79B1) >> 30 == 0 {
            let high = ((fb.wrapping_mul(0x85EB_CA6B) >> 20) | 1) & 0xFFF;
            pb = (pb.wrapping_add(1 + (fb & 7)) & 0xFFFFF) | (high << 20);
        }
        if kind == 4 {
            // (v) a correct-parity group that repeats an earlier acknowledgement of a newer frame
            // next to a first acknowledgement of an older one: the newer frame b is acknowledged
            // (correct nonce) first, the group {a, b} later.
            let mut genuine_acked = std::collections::BTreeSet::new();
            for b in consumed.iter() {
                if let Some(uv::Frame::AckFrame(f)) = uv::Frame::read(b) {
                    for g in f.frame_acks.iter() {
                        for i in 0..32u32 {
                            if g.bitfield & (1 << i) != 0 {
                                genuine_acked.insert(g.base_id.wrapping_add(i));
                            }
                        }
                    }
                }
            }
            let fresh: Vec<(u32, bool)> = self.seen.nonces.iter().cloned()
                .filter(|(id, _)| id.wrapping_sub(h.tx_frame_log_base_id) < h.tx_frame_log_len && !genuine_acked.contains(id) && !self.forged_acked.contains(id))
                .collect();
            if fresh.len() >= 2 {
                let i = self.rng.below(fresh.len() as u64 - 1) as usize;
                let (a, na) = fresh[i];
                let later: Vec<(u32, bool)> = fresh[i + 1..].iter().cloned().filter(|(id, _)| { let d = id.wrapping_sub(a); d >= 1 && d < 32 }).collect();
                if let Some(&(b, nb)) = later.get(self.rng.below(later.len().max(1) as u64) as usize) {
                    let d = b.wrapping_sub(a);
                    let t1 = now_us + 1;
                    let gap = *self.rng.pick(&[30_000u64, 150_000, 400_000, 1_500_000]);
                    let g_b = enc_ack(fb, pb, &[(b, 1, nb as u8)]);
                    let g_ab = enc_ack(fb, pb, &[(a, 1 | (1 << d), (na ^ nb) as u8)]);
                    // both frames go to both executions: what the repeated bit may not do is
                    // decided by the RTT sample oracle, not by the comparison (the span of a group
                    // legitimately contributes its frames' rate-limited flags)
                    out.push(TimedOp { t_us: t1, rank: DELIVER_RANK_PUB, op: Op::Inject { to: self.sender, from: self.peer, bytes: g_b, twin: false } });
                    out.push(TimedOp { t_us: t1 + gap, rank: DELIVER_RANK_PUB, op: Op::Inject { to: self.sender, from: self.peer, bytes: g_ab, twin: false } });
                    self.forged_acked.insert(a);
                    self.forged_acked.insert(b);
                    self.made[4] += 1;
                    self.count += 2;
                }
            }
            return;
        }
        let bytes: Option<Vec<u8>> = match kind {
            0 => {
                // (i) known frames, wrong parity
                let known: Vec<(u32, bool)> = self.seen.nonces.iter().cloned().filter(|(id, _)| id.wrapping_sub(h.tx_frame_log_base_id) < h.tx_frame_log_len).collect();
                if known.is_empty() {
                    None
                } else {
                    let n = self.rng.range(1, 4);
                    let mut groups = Vec::new();
                    for _ in 0..n {
                        let (base, _) = known[self.rng.below(known.len() as u64) as usize];
                        // the group need not claim its own base frame (no genuine receiver builds
                        // such a group, a forger may)
                        let claim_base = self.rng.chance(0.6);
                        let mut bits = claim_base as u32;
                        let mut parity = if claim_base { self.seen.nonces.iter().find(|(id, _)| *id == base).map(|x| x.1) } else { Some(false) };
                        let p_bit = if claim_base { 0.2 } else { 0.4 };
                        for i in 1..32u32 {
                            if self.rng.chance(p_bit) {
                                if let (Some(p), Some((_, n))) = (parity, self.seen.nonces.iter().find(|(id, _)| *id == base.wrapping_add(i))) {
                                    bits |= 1 << i;
                                    parity = Some(p ^ *n);
                                }
                            }
                        }
                        if let Some(p) = parity {
                            groups.push((base, bits, (!p) as u8));
                        }
                    }
                    if groups.is_empty() { None } else { Some(enc_ack(fb, pb, &groups)) }
                }
            }
            1 => {
                // (ii) groups that touch unknown frames: entirely beyond the next id, or
                // entirely behind the log
                let n = self.rng.range(1, 4);
                let mut groups = Vec::new();
                for _ in 0..n {
                    let base = if self.rng.chance(0.5) {
                        // far beyond: the frame must still not exist when the forged ack is
                        // delivered (up to two minutes later)
                        h.tx_frame_next_id.wrapping_add(0x4000_0000 + self.rng.below(5000) as u32)
                    } else {
                        h.tx_frame_log_base_id.wrapping_sub(32 + self.rng.below(5000) as u32)
                    };
                    let bits = if self.rng.chance(0.5) { 1 } else { self.rng.u32() | 1 };
                    // stay clear of the log: all set bits must name unknown frames
                    let hi = 32 - bits.leading_zeros();
                    let touches = (0..hi).any(|i| base.wrapping_add(i).wrapping_sub(h.tx_frame_log_base_id) < h.tx_frame_log_len);
                    if !touches {
                        groups.push((base, bits, self.rng.below(2) as u8));
                    }
                }
                if groups.is_empty() { None } else { Some(enc_ack(fb, pb, &groups)) }
            }
            2 => {
                // (iii) exact copy of a genuine ack frame, replayed
                if consumed.is_empty() { None } else { Some((*consumed[self.rng.below(consumed.len() as u64) as usize]).clone()) }
            }
            _ => {
                // (iv) genuine groups re-packed into a new frame
                if consumed.is_empty() {
                    None
                } else {
                    let mut groups = Vec::new();
                    for _ in 0..self.rng.range(1, 3) {
                        let b = &consumed[self.rng.below(consumed.len() as u64) as usize];
                        if let Some(uv::Frame::AckFrame(f)) = uv::Frame::read(b) {
                            for g in f.frame_acks.iter() {
                                groups.push((g.base_id, g.bitfield, g.nonce as u8));
                            }
                        }
                    }
                    if groups.is_empty() { None } else { Some(enc_ack(fb, pb, &groups)) }
                }
            }
        };
        if let Some(bytes) = bytes {
            self.made[kind] += 1;
            self.count += 1;
            // one step later ... minutes later
            let dt = match self.rng.below(4) {
                0 => 1,
                1 => self.rng.range(1, 50_000),
                2 => self.rng.range(50_000, 3_000_000),
                _ => self.rng.range(3_000_000, 120_000_000),
            };
            out.push(TimedOp { t_us: now_us + dt, rank: DELIVER_RANK_PUB, op: Op::Inject { to: self.sender, from: self.peer, bytes, twin: true } });
        }
    }
}

/// Runs baseline (twin operations removed) and twin, comparing the sender's behaviour.
/// The twin execution may stop early (at its violation) while the baseline ran to the end: the
/// replay file must also carry the fates the baseline drew for the datagrams the twin never sent.
/// Both executions key fates by (link, ordinal), so the union is well defined.
fn merge_baseline_fates(v: &mut RunVerdict, b: &RunVerdict) {
    if let (Some(m), Some(bm)) = (v.materialised.as_mut(), b.materialised.as_ref()) {
        for (link, fates) in bm.fates.iter() {
            let dst = m.fates.entry(link.clone()).or_default();
            for (ord, f) in fates.iter() {
                dst.entry(*ord).or_insert_with(|| f.clone());
            }
        }
    }
}

pub fn twin_run(def: &CheckDef, fam: &Family, plan: &Plan, materialise: bool) -> Result<RunVerdict, String> {
    let sender = plan.param("twin_sender", 0.0) as usize;
    let recording: Baseline = Rc::new(RefCell::new(Vec::new()));
    // 1. the execution that receives the extra acknowledgements (in search mode the forger is
    //    active here and its frames end up in the materialised plan)
    let twin_fam = Family { custom: None, ..fam.clone() };
    let oracles: Vec<Box<dyn Oracle>> = vec![Box::new(TwinOracle::recorder(def.property, sender, recording.clone())), Box::new(RttSampleOracle::new(def.property, sender)), Box::new(crate::oracle_wire::ModeOracle::marks_only(def.property)), Box::new(StateCoverage::new())];
    let t = run_plan_with(def, &twin_fam, plan, true, oracles)?;
    if t.violation.is_some() || t.aborted_by_panic.is_some() {
        return Ok(t);
    }
    // 2. the same plan without the twin-only frames (frames the forger marked as common to
    //    both executions stay), compared call by call
    let mut base_plan = t.materialised.clone().ok_or("twin run produced no materialised plan")?;
    base_plan.timeline.retain(|t| !matches!(t.op, Op::Inject { twin: true, .. }));
    let base_fam = Family { adversary: None, custom: None, ..fam.clone() };
    let mut v = run_plan_with(def, &base_fam, &base_plan, false, vec![Box::new(TwinOracle::comparer(def.property, sender, recording.clone()))])?;
    // digest covers both executions
    v.digest = t.digest ^ v.digest.rotate_left(17);
    v.materialised = if materialise { t.materialised } else { None };
    v.nontrivial = v.nontrivial && t.nontrivial;
    for (k, n) in t.reach.iter() {
        *v.reach.entry(k.clone()).or_insert(0) += *n;
    }
    v.states = t.states;
    v.stats = t.stats;
    Ok(v)
}

// ---------------------------------------------------------------------------------------------
// Non-interference twin (C03, World B): the event streams of the genuine endpoints must be the
// same with and without the attacker's datagrams.

#[derive(Clone, PartialEq, Debug)]
pub struct EvSnap {
    t_ns: u64,
    kind: u8,
    len: usize,
    hash: u64,
}

pub type EvBaseline = Rc<RefCell<BTreeMap<(usize, Option<usize>), Vec<EvSnap>>>>;

pub struct EventTwin {
    property: &'static str,
    baseline: EvBaseline,
    compare: bool,
    pos: BTreeMap<(usize, Option<usize>), usize>,
    compared: u64,
    injected: u64,
}

impl EventTwin {
    pub fn new(property: &'static str, baseline: EvBaseline, compare: bool) -> Self {
        Self { property, baseline, compare, pos: BTreeMap::new(), compared: 0, injected: 0 }
    }
}

fn genuine(plan: &Plan, ep: usize) -> bool {
    matches!(plan.endpoints[ep].kind, EndpointKind::Client { .. } | EndpointKind::Server { .. })
}

impl Oracle for EventTwin {
    fn on(&mut self, rec: &Rec, cx: &Cx) -> Option<Violation> {
        match rec {
            Rec::Delivered { injected: true, .. } => self.injected += 1,
            Rec::Event { call, t_ns, ep, peer, peer_addr, ev, .. } => {
                if !genuine(cx.plan, *ep) {
                    return None;
                }
                // server events about the attacker's own addresses are not part of the claim
                if let Some(a) = peer_addr {
                    match cx.ep_of(a) {
                        Some(p) if genuine(cx.plan, p) => (),
                        _ => return None,
                    }
                }
                let (kind, len, hash) = match ev {
                    AppEvent::Connect => (1u8, 0, 0),
                    AppEvent::Disconnect => (2, 0, 0),
                    AppEvent::Error(k) => (10 + *k, 0, 0),
                    AppEvent::Receive(p) => {
                        let mut d = crate::rng::Digest::new();
                        d.bytes(p);
                        (3, p.len(), d.finish())
                    }
                };
                let snap = EvSnap { t_ns: *t_ns, kind, len, hash };
                let key = (*ep, *peer);
                if !self.compare {
                    self.baseline.borrow_mut().entry(key).or_default().push(snap);
                    return None;
                }
                let base = self.baseline.borrow();
                let k = *self.pos.get(&key).unwrap_or(&0);
                self.pos.insert(key, k + 1);
                self.compared += 1;
                let expected = base.get(&key).and_then(|v| v.get(k));
                if expected != Some(&snap) {
                    let d = format!(
                        "event #{} of endpoint {} (peer {:?}) differs: without the attacker's datagrams {:?}, with them {:?} (kind 1 = Connect, 2 = Disconnect, 3 = Receive, 10+ = Error)",
                        k, ep, peer, expected, snap);
                    return Some(Violation { property: self.property.into(), clause: "attack_changed_genuine_events".into(), detail: d, at_call: *call });
                }
            }
            Rec::End { .. } => {
                if self.compare {
                    let base = self.baseline.borrow();
                    for (key, v) in base.iter() {
                        let got = *self.pos.get(key).unwrap_or(&0);
                        if got < v.len() {
                            let d = format!("endpoint {} (peer {:?}) saw {} events without the attacker's datagrams but only {} with them; first missing: {:?}", key.0, key.1, v.len(), got, v[got]);
                            return Some(Violation { property: self.property.into(), clause: "attack_suppressed_genuine_events".into(), detail: d, at_call: 0 });
                        }
                    }
                }
            }
            _ => (),
        }
        None
    }

    fn reach(&self, out: &mut BTreeMap<String, u64>) {
        if self.compare {
            let mut a = |k: &str, v: u64| *out.entry(k.to_string()).or_insert(0) += v;
            a("genuine_events_compared_with_attack_free_twin", self.compared);
            a("attacker_datagrams_delivered", self.injected);
        }
    }

    fn nontrivial(&self) -> bool {
        !self.compare || (self.compared >= 3 && self.injected >= 3)
    }
}

pub fn twin_events_run(def: &CheckDef, fam: &Family, plan: &Plan, materialise: bool) -> Result<RunVerdict, String> {
    let baseline: EvBaseline = Rc::new(RefCell::new(BTreeMap::new()));
    let mut base_plan = plan.clone();
    base_plan.timeline.retain(|t| !matches!(t.op, Op::Inject { twin: true, .. }));
    base_plan.adversary = String::new();
    let base_fam = Family { adversary: None, custom: None, ..fam.clone() };
    let b = run_plan_with(def, &base_fam, &base_plan, materialise, vec![Box::new(EventTwin::new(def.property, baseline.clone(), false))])?;
    if b.violation.is_some() || b.aborted_by_panic.is_some() {
        return Ok(b);
    }
    let twin_fam = Family { custom: None, ..fam.clone() };
    let oracles: Vec<Box<dyn Oracle>> = vec![Box::new(EventTwin::new(def.property, baseline.clone(), true)), Box::new(StateCoverage::new())];
    let mut v = run_plan_with(def, &twin_fam, plan, materialise, oracles)?;
    v.digest ^= b.digest.rotate_left(17);
    merge_baseline_fates(&mut v, &b);
    Ok(v)
}
