//! World B generators: a real Server, real Clients and raw sockets on the simulated network.

use crate::gen::*;
use crate::plan::*;
use crate::rng::{key, Rng};

pub fn server_addr() -> String {
    "10.1.0.1:8888".to_string()
}

pub fn client_addr(i: usize) -> String {
    format!("10.2.0.{}:{}", i + 1, 40000 + i)
}

pub fn raw_addr(i: usize) -> String {
    format!("10.3.0.{}:{}", i + 1, 50000 + i)
}

pub fn sample_cfg(r: &mut Rng) -> EndpointCfg {
    let mut c = EndpointCfg::default();
    if r.chance(0.5) {
        c.max_send_rate = match r.below(4) {
            0 => r.log_range(1472, 50_000),
            1 => r.log_range(50_000, 2_000_000),
            2 => 2_000_000,
            _ => r.log_range(2_000_000, 50_000_000),
        };
    }
    if r.chance(0.3) {
        c.max_receive_rate = r.log_range(1472, 50_000_000);
    }
    if r.chance(0.4) {
        c.max_receive_alloc = match r.below(4) {
            3 => r.range(2, 40) * FRAG,
            0 => r.range(2_000, 50_000),
            1 => r.range(50_000, 1_000_000),
            _ => r.range(1_000_000, 4_000_000),
        };
        // ... nor does what an endpoint sends have to fit what it is prepared to receive: in a
        // quarter of these configurations max_packet_size stays above the endpoint's own
        // max_receive_alloc (make_compatible() still fits it to the peer's)
        let own_alloc_binds = !r.chance(0.25);
        if own_alloc_binds {
            c.max_packet_size = c.max_packet_size.min(c.max_receive_alloc);
        }
        // the largest packet an endpoint sends need not be as large as what it can receive
        if own_alloc_binds && r.chance(0.4) {
            c.max_packet_size = r.range(1500, c.max_packet_size.max(1501));
        }
    }
    if r.chance(0.3) {
        c.keepalive = r.chance(0.7);
        c.keepalive_interval_ms = r.log_range(100, 30_000);
    }
    c
}

pub struct BTopology {
    pub server: usize,
    pub clients: Vec<usize>,
    pub raws: Vec<usize>,
}

/// Endpoint 0 is the server, then `n_clients` clients, then `n_raw` raw sockets. Compatible
/// configurations: every max_packet_size fits the peer's max_receive_alloc.
pub fn topology(plan: &mut Plan, r: &mut Rng, n_clients: usize, n_raw: usize, server_cfg: EndpointCfg, max_total: u64, max_active: u64, client_cfg: impl Fn(&mut Rng, usize) -> EndpointCfg) -> BTopology {
    plan.endpoints.push(EndpointSpec {
        kind: EndpointKind::Server { cfg: server_cfg, max_total, max_active, handshake_errors: r.chance(0.5) },
        addr: server_addr(),
        clock_ppm: if r.chance(0.3) { r.range(980_000, 1_020_000) } else { 1_000_000 },
        echo: false,
        nonces: Vec::new(),
    });
    let mut clients = Vec::new();
    for i in 0..n_clients {
        let cfg = client_cfg(r, i);
        plan.endpoints.push(EndpointSpec {
            kind: EndpointKind::Client { cfg, server: 0 },
            addr: client_addr(i),
            clock_ppm: if r.chance(0.3) { r.range(980_000, 1_020_000) } else { 1_000_000 },
            echo: false,
            nonces: Vec::new(),
        });
        clients.push(1 + i);
    }
    let mut raws = Vec::new();
    for i in 0..n_raw {
        plan.endpoints.push(EndpointSpec { kind: EndpointKind::Raw, addr: raw_addr(i), clock_ppm: 1_000_000, echo: false, nonces: Vec::new() });
        raws.push(1 + n_clients + i);
    }
    // address families (drawn from a generator of its own): in one run out of eight the server is
    // a dual-stack IPv6 socket and every peer reaches it under an IPv6 address - a genuine one or
    // the IPv4-mapped form (::ffff:a.b.c.d) under which such a socket sees IPv4 peers
    let mut ra = Rng::keyed(&[plan.seed, plan.run, 0xadd2_6]);
    if ra.chance(0.125) {
        plan.endpoints[0].addr = "[2001:db8::1]:8888".to_string();
        for (i, e) in plan.endpoints.iter_mut().enumerate().skip(1) {
            let v4: std::net::SocketAddr = e.addr.parse().unwrap();
            e.addr = if ra.chance(0.5) {
                match v4.ip() {
                    std::net::IpAddr::V4(ip) => format!("[{}]:{}", ip.to_ipv6_mapped(), v4.port()),
                    _ => e.addr.clone(),
                }
            } else {
                format!("[2001:db8:{}::{}]:{}", i / 256 + 2, i % 256 + 1, v4.port())
            };
        }
    }
    BTopology { server: 0, clients, raws }
}

/// Make two configurations compatible the way the handshake demands.
pub fn make_compatible(a: &mut EndpointCfg, b: &mut EndpointCfg) {
    a.max_packet_size = a.max_packet_size.min(b.max_receive_alloc);
    b.max_packet_size = b.max_packet_size.min(a.max_receive_alloc);
}

pub struct BScenario {
    pub n_clients: usize,
    pub packets: u64,
    pub horizon_us: u64,
    pub fault_until_us: u64,
    pub heal: bool,
    pub allow_flips: bool,
    pub near_wrap: bool,
    pub active_timeout_ms: u64,
    /// loss-free, order-preserving link (C05)
    pub ideal: bool,
    /// cap on the payload bytes per direction and connection (0 = none)
    pub byte_cap: u64,
}

/// General World B traffic scenario: clients connect at t=0 (or a little later), both sides
/// send, faults in phases until `fault_until_us`, optionally a fair phase afterwards.
pub fn world_b_general(property: &str, scenario: &str, seed: u64, run: u64, sc: &BScenario) -> Plan {
    let mut r = Rng::keyed(&[seed, crate::rng::str_key(property), crate::rng::str_key(scenario), run]);
    let mut plan = Plan::new(property, scenario, seed, run);
    plan.fate_seed = Some(key(&[seed, run, 0xfa7e]));
    let mut scfg = sample_cfg(&mut r);
    scfg.active_timeout_ms = sc.active_timeout_ms;
    let base_server = scfg.clone();
    let to = sc.active_timeout_ms;
    let topo = topology(&mut plan, &mut r, sc.n_clients, 0, scfg, 64, 32, |r, _| {
        let mut c = sample_cfg(r);
        c.active_timeout_ms = to;
        let mut s = base_server.clone();
        make_compatible(&mut c, &mut s);
        c
    });
    // the server's packet size must fit every client's allocation
    let min_client_alloc = topo.clients.iter().map(|c| match &plan.endpoints[*c].kind { EndpointKind::Client { cfg, .. } => cfg.max_receive_alloc, _ => u64::MAX }).min().unwrap_or(u64::MAX);
    if let EndpointKind::Server { cfg, .. } = &mut plan.endpoints[0].kind {
        cfg.max_packet_size = cfg.max_packet_size.min(min_client_alloc);
    }
    if sc.near_wrap {
        // steer the handshake nonces (= initial frame ids, and packet ids in their low 20 bits)
        // to within a few thousand of the wrap-around
        for e in plan.endpoints.iter_mut() {
            let n = 0u32.wrapping_sub(r.range(1, 6000) as u32);
            e.nonces = (0..8).map(|k| n.wrapping_add(k * 7919)).collect();
        }
    }
    plan.push(0, 0, Op::Create { ep: topo.server });
    let mut latency = sample_latency(&mut r);
    if sc.ideal {
        // the ideal network may be a slow one: one-way delays of 0.4-3 s in some runs (the
        // handshake then takes longer than the 2 s after which a request is repeated)
        let mut rl = Rng::keyed(&[seed, run, 0x1a7e_9c]);
        if rl.chance(0.15) {
            latency = rl.range(400_000, 3_000_000);
        }
    }
    let mut t = 0;
    let phases = r.range(1, 3);
    for p in 0..phases {
        let mut rule = if p > 0 && r.chance(0.2) { clean_rule(latency) } else { faulty_rule(&mut r, latency, sc.allow_flips) };
        rule.drop_p = rule.drop_p.min(0.2);
        if sc.ideal {
            rule = clean_rule(latency);
            rule.fifo = true;
            if r.chance(0.3) {
                rule.jitter_us = r.below(latency + 1);
            }
        }
        plan.push(t, 2, Op::Link { from: None, to: None, rule });
        t += sc.fault_until_us / phases;
    }
    if sc.heal {
        let mut healed = clean_rule(latency.min(200_000));
        // an ideal network stays order-preserving across the boundary
        healed.fifo = sc.ideal;
        plan.push(sc.fault_until_us, 2, Op::Link { from: None, to: None, rule: healed });
        plan.push(sc.fault_until_us, 3, Op::Mark { name: "heal".into() });
    }
    let send_until = sc.fault_until_us.min(sc.horizon_us);
    let mut short_ch = 0;
    let mut tiny_mode = 0;
    let mut first = true;
    let mut tag_server = 0u32;
    for &c in topo.clients.iter() {
        let t_create = r.below(200_000);
        plan.push(t_create, 1, Op::Create { ep: c });
        let (max_c, max_s) = match (&plan.endpoints[c].kind, &plan.endpoints[0].kind) {
            (EndpointKind::Client { cfg, .. }, EndpointKind::Server { cfg: scfg, .. }) => (cfg.max_packet_size.min(scfg.max_receive_alloc), scfg.max_packet_size.min(cfg.max_receive_alloc)),
            _ => (1000, 1000),
        };
        // client -> server
        let mut w = Workload::sample(&mut r, sc.packets.max(1), max_c.min(70_000));
        if first {
            short_ch = w.short_ch;
            tiny_mode = w.tiny_mode;
            first = false;
        } else {
            w.channels = w.channels.max(short_ch + 1);
            w.short_ch = short_ch;
            w.tiny_mode = tiny_mode;
        }
        w.sends(&mut r, &mut plan, c, None, t_create, send_until, 0);
        // server -> client (only useful once connected: start a little later)
        let mut ws = Workload::sample(&mut r, (sc.packets / 2).max(1), max_s.min(70_000));
        ws.channels = ws.channels.max(short_ch + 1);
        ws.short_ch = short_ch;
        ws.tiny_mode = tiny_mode;
        tag_server += ws.sends(&mut r, &mut plan, 0, Some(c), t_create + 3 * latency + 300_000, send_until.max(t_create + 3 * latency + 300_001), tag_server);
        let cad = Cadence::sample(&mut r);
        cad.steps(&mut r, &mut plan, c, t_create, if sc.heal { sc.fault_until_us } else { sc.horizon_us }, 6000, false);
        if sc.heal {
            let period = cad.period_us.clamp(1000, 100_000);
            plan.push(sc.fault_until_us + r.below(period), r.u32() | 1, Op::StepEvery { ep: c, period_us: period, until_us: sc.horizon_us });
        }
    }
    let cad = Cadence::sample(&mut r);
    cad.steps(&mut r, &mut plan, 0, 0, if sc.heal { sc.fault_until_us } else { sc.horizon_us }, 8000, false);
    if sc.heal {
        let period = cad.period_us.clamp(1000, 100_000);
        plan.push(sc.fault_until_us + r.below(period), r.u32() | 1, Op::StepEvery { ep: 0, period_us: period, until_us: sc.horizon_us });
    }
    if sc.byte_cap > 0 {
        let mut bytes: std::collections::BTreeMap<(usize, Option<usize>), u64> = Default::default();
        plan.timeline.retain(|t| match &t.op {
            Op::Send { ep, to, len, .. } => {
                let b = bytes.entry((*ep, *to)).or_insert(0);
                *b += *len as u64 + 14;
                *b <= sc.byte_cap
            }
            _ => true,
        });
    }
    small_windows_b(&mut plan, seed, run, 0.3);
    if !sc.ideal {
        let eps: Vec<usize> = std::iter::once(0).chain(topo.clients.iter().cloned()).collect();
        socket_faults(&mut plan, seed, run, &eps, if sc.heal { sc.fault_until_us } else { sc.horizon_us });
        clock_jumps(&mut plan, seed, run, &eps, if sc.heal { sc.fault_until_us } else { sc.horizon_us });
    }
    plan.params.insert("short_ch".into(), short_ch as f64);
    plan.end_us = sc.horizon_us;
    plan.sort();
    plan
}

/// Failing system calls and a full receive buffer (swarm style: most runs have none): `send_to`
/// fails for the next few datagrams (they are lost before reaching the wire), `recv_from` fails a
/// few times (uflow stops draining its socket for that step; nothing is lost), and for a while
/// the socket buffer holds only a few datagrams (what arrives beyond that is dropped). All before
/// `until_us`. Drawn from a generator of their own so that the rest of the plan does not depend
/// on them.
pub fn socket_faults(plan: &mut Plan, seed: u64, run: u64, eps: &[usize], until_us: u64) {
    let mut r = Rng::keyed(&[seed, run, 0x50c4_e7]);
    if until_us < 1_000_000 || eps.is_empty() {
        return;
    }
    if r.chance(0.25) {
        for _ in 0..r.range(1, 8) {
            let ep = *r.pick(eps);
            let (recv, send) = match r.below(3) {
                0 => (r.range(1, 4) as u32, 0),
                1 => (0, r.range(1, 12) as u32),
                _ => (r.range(1, 3) as u32, r.range(1, 6) as u32),
            };
            plan.push(r.range(100_000, until_us), r.u32() | 1, Op::SockErr { ep, recv, send });
        }
    }
    if r.chance(0.15) {
        let ep = *r.pick(eps);
        let t0 = r.range(100_000, until_us);
        let t1 = (t0 + r.log_range(10_000, 5_000_000)).min(until_us);
        plan.push(t0, r.u32() | 1, Op::SockCap { ep, cap: *r.pick(&[1u32, 2, 4, 16]) });
        plan.push(t1, r.u32() | 1, Op::SockCap { ep, cap: u32::MAX });
    }
}

/// Window knob (hook H10): in some runs every half connection that Client and Server create
/// gets frame and packet windows of 4..256 instead of 4096, so that the windows of the real
/// stack fill up, stall and resynchronise. Drawn from a generator of its own.
pub fn small_windows_b(plan: &mut Plan, seed: u64, run: u64, p: f64) {
    let mut r = Rng::keyed(&[seed, run, 0x77696e]);
    if r.chance(p) {
        plan.params.insert("b_frame_window".into(), (1u32 << r.range(2, 8)) as f64);
        plan.params.insert("b_packet_window".into(), (1u32 << r.range(2, 8)) as f64);
    }
}

/// The same for a finished plan: every real Client and Server, until the `heal` mark (or the end).
pub fn with_socket_faults(mut plan: Plan, seed: u64, run: u64) -> Plan {
    let eps: Vec<usize> = plan.endpoints.iter().enumerate().filter(|(_, e)| matches!(e.kind, EndpointKind::Client { .. } | EndpointKind::Server { .. })).map(|(i, _)| i).collect();
    let until = plan.timeline.iter().find(|t| matches!(&t.op, Op::Mark { name } if name == "heal")).map_or(plan.end_us, |t| t.t_us);
    socket_faults(&mut plan, seed, run, &eps, until);
    plan.sort();
    plan
}

// ---------------------------------------------------------------------------------------------
// Handshake / lifecycle / limits / amplification scenarios

use crate::adversary::*;

fn handshake_fault_rule(r: &mut Rng, latency: u64) -> LinkRule {
    let mut rule = clean_rule(latency);
    if r.chance(0.7) {
        // loss aimed at handshake and disconnect frames
        rule.drop_types = *r.pick(&[0b1111u32, 0b0001, 0b0010, 0b0100, 0b1000, 0b110000, 0b111111]);
        rule.drop_types_p = *r.pick(&[0.3, 0.5, 0.8]);
    }
    if r.chance(0.5) {
        rule.dup_p = *r.pick(&[0.1, 0.3, 0.6]);
    }
    if r.chance(0.5) {
        rule.reorder_p = 0.3;
        rule.reorder_us = r.log_range(1000, 5_000_000);
    }
    if r.chance(0.3) {
        rule.drop_p = *r.pick(&[0.05, 0.2]);
    }
    rule
}

/// C07: staggered clients, faults on handshake frames, incompatible configurations, restarts,
/// one data exchange per connection.
pub fn world_b_handshake(property: &str, scenario: &str, seed: u64, run: u64, thorough: bool, clean: bool) -> Plan {
    let mut r = Rng::keyed(&[seed, crate::rng::str_key(property), crate::rng::str_key(scenario), run]);
    let mut plan = Plan::new(property, scenario, seed, run);
    plan.fate_seed = Some(key(&[seed, run, 0xfa7e]));
    let n_clients = r.range(1, 6) as usize;
    let mut scfg = sample_cfg(&mut r);
    scfg.max_receive_alloc = scfg.max_receive_alloc.max(50_000);
    scfg.max_packet_size = scfg.max_packet_size.min(40_000);
    let base_server = scfg.clone();
    // which clients are incompatible, and how
    let mut expect: Vec<Option<u8>> = Vec::new();
    for _ in 0..n_clients {
        expect.push(if r.chance(0.25) { Some(2) } else { None });
    }
    let expect2 = expect.clone();
    // a server with room for one or two connections in some runs of the faulty family (what is
    // refused for another reason is then also refused for lack of room: the reason given counts)
    let (cap_total, cap_active) = if !clean && r.chance(0.2) { (r.range(1, 3), r.range(1, 2)) } else { (64, 32) };
    let topo = topology(&mut plan, &mut r, n_clients, 2, scfg, cap_total, cap_active, |r, i| {
        let mut c = sample_cfg(r);
        let mut s = base_server.clone();
        make_compatible(&mut c, &mut s);
        c.max_packet_size = c.max_packet_size.min(base_server.max_receive_alloc);
        c.max_receive_alloc = c.max_receive_alloc.max(base_server.max_packet_size);
        if expect2[i].is_some() {
            if r.chance(0.5) {
                // the client's packets would not fit the server's receive allocation
                c.max_receive_alloc = c.max_receive_alloc.max(base_server.max_receive_alloc + 1000);
                c.max_packet_size = (base_server.max_receive_alloc + 1 + r.below(500)).min(c.max_receive_alloc);
            } else {
                // the client's receive allocation cannot hold the server's packets
                c.max_receive_alloc = base_server.max_packet_size - 1 - r.below(base_server.max_packet_size.min(500));
                c.max_packet_size = c.max_packet_size.min(c.max_receive_alloc).max(1);
            }
        }
        c
    });
    for (i, e) in expect.iter().enumerate() {
        if let Some(k) = e {
            plan.params.insert(format!("expect_error_ep{}", topo.clients[i]), *k as f64);
        }
    }
    // "effectively unlimited" settings: the handshake fields are 32 bits wide and saturate
    for (i, e) in plan.endpoints.iter_mut().enumerate() {
        let compatible = i == 0 || !topo.clients.iter().position(|c| *c == i).map_or(false, |k| expect[k].is_some());
        if let (true, EndpointKind::Client { cfg, .. } | EndpointKind::Server { cfg, .. }) = (compatible, &mut e.kind) {
            const HUGE: [u64; 5] = [u32::MAX as u64, 1 << 32, (1 << 32) + 4096, (1 << 32) + 40_000_000, 1 << 40];
            // (the server's receive allocation is what the incompatible clients were built against)
            if i != 0 && r.chance(0.15) {
                cfg.max_receive_alloc = *r.pick(&HUGE);
            }
            if r.chance(0.1) {
                cfg.max_send_rate = *r.pick(&HUGE);
            }
            if r.chance(0.1) {
                cfg.max_receive_rate = *r.pick(&HUGE);
            }
        }
    }
    if r.chance(0.3) {
        for e in plan.endpoints.iter_mut() {
            let n = 0u32.wrapping_sub(r.range(1, 6000) as u32);
            e.nonces = (0..16).map(|k| n.wrapping_add(k * 7919)).collect();
        }
    }
    plan.push(0, 0, Op::Create { ep: 0 });
    for &raw in topo.raws.iter() {
        plan.push(0, 1, Op::Create { ep: raw });
    }
    let latency = sample_latency(&mut r).min(150_000);
    let horizon = r.range(30, if thorough { 90 } else { 50 }) * 1_000_000;
    let rule = if clean { clean_rule(latency) } else { handshake_fault_rule(&mut r, latency) };
    plan.push(0, 2, Op::Link { from: None, to: None, rule });
    if clean {
        plan.params.insert("handshake_link_clean".into(), 1.0);
        // ... except that each handshake loses a few of its first datagrams (SYN, SYN-ACK or error,
        // ACK): the retries must still complete it
        for &c in topo.clients.iter() {
            for link in [format!("{}>{}", c, 0), format!("{}>{}", 0, c)] {
                let m = plan.fates.entry(link).or_default();
                for ord in 0..3u64 {
                    if r.chance(0.3) {
                        m.insert(ord, Fate::dropped());
                    }
                }
            }
            // sometimes an outage of the server's answers for up to 20 s: the first k of its 11
            // SYN-ACK transmissions are lost, the next one gets through and must still count
            if r.chance(0.25) {
                let k = *r.pick(&[4u64, 8, 9, 10, 10]);
                // (the client's own requests all arrive, so that both retry budgets start together)
                plan.fates.remove(&format!("{}>{}", c, 0));
                let m = plan.fates.entry(format!("{}>{}", 0, c)).or_default();
                m.clear();
                for ord in 0..k {
                    m.insert(ord, Fate::dropped());
                }
                plan.params.insert(format!("synack_outage_ep{}", c), k as f64);
                // during such an outage the server application may drop the pending handshake:
                // the client, still waiting, starts it again with its next SYN, and the
                // connection that results must last
                if k <= 8 && r.chance(0.5) {
                    plan.params.insert(format!("drop_pending_ep{}", c), k as f64);
                }
            }
        }
    }
    let mut tag = 0u32;
    for (i, &c) in topo.clients.iter().enumerate() {
        let t_create = r.range(0, 3_000_000);
        plan.push(t_create, 1, Op::Create { ep: c });
        // on the clean link, now and then a volley of handshake ACKs with wrong nonces that carry
        // the client's address, while its handshake is (probably) still pending: they must not
        // keep the genuine ACK from completing it
        if clean && r.chance(0.2) {
            let mut t = t_create + r.range(0, 2_500_000);
            for k in 0..r.range(3, 9) {
                plan.push(t, 0x8000_0002, Op::Inject { to: 0, from: c, bytes: enc_hs_ack(0x4000_0000 + (c as u32) * 64 + k as u32), twin: false });
                t += r.range(0, 200_000);
            }
        }
        let k = plan.param(&format!("drop_pending_ep{}", c), 0.0) as u64;
        if k > 0 {
            // before the first SYN-ACK that gets through has been sent
            let t = t_create + r.range(500_000, 2_000_000 * k - 500_000);
            plan.push(t, r.u32() | 1, Op::ServerDrop { ep: 0, to: c });
        }
        let cad = Cadence { period_us: r.range(5_000, 100_000), jitter: 0.3, stall_p: 0.0, stall_max_us: 0, flush_after_step_p: 0.2 };
        let mut t_end = horizon;
        // crash and restart on the same address (nothing survives)
        if !clean && expect[i].is_none() && r.chance(0.25) {
            let t_crash = t_create + r.range(1_000_000, 25_000_000);
            plan.push(t_crash, 1, Op::Destroy { ep: c });
            let t_back = t_crash + r.range(100_000, 30_000_000);
            plan.push(t_back, 1, Op::Create { ep: c });
            cad.steps(&mut r, &mut plan, c, t_create, t_crash, 4000, false);
            cad.steps(&mut r, &mut plan, c, t_back, horizon, 4000, false);
            t_end = t_crash;
        } else {
            cad.steps(&mut r, &mut plan, c, t_create, horizon, 6000, false);
        }
        // a few packets in both directions once connected (also queued before Connect)
        for k in 0..r.range(1, 6) {
            let t = t_create + r.range(0, (t_end - t_create).max(1));
            plan.push(t, 0x4000_0000 + tag, Op::Send { ep: c, to: None, ch: (k % 4) as u8, mode: MODE_RELIABLE, len: r.range(12, 400) as u32, tag });
            tag += 1;
            let t2 = t_create + r.range(500_000, (t_end - t_create).max(500_001));
            plan.push(t2, 0x4000_0000 + tag, Op::Send { ep: 0, to: Some(c), ch: (k % 4) as u8, mode: MODE_RELIABLE, len: r.range(12, 400) as u32, tag });
            tag += 1;
        }
    }
    let cad = Cadence { period_us: r.range(5_000, 60_000), jitter: 0.3, stall_p: 0.0, stall_max_us: 0, flush_after_step_p: 0.2 };
    cad.steps(&mut r, &mut plan, 0, 0, horizon, 12_000, false);
    // stray handshake frames that carry a client's own address (stale duplicates, forgeries):
    // requests of a foreign version, with other nonces, with limits the server would refuse, and
    // stray ACKs, during the handshake and during the connection's life
    if !clean {
        for &c in topo.clients.iter() {
            for _ in 0..r.range(0, 3) {
                let t = r.range(0, horizon * 2 / 3);
                let bytes = match r.below(4) {
                    0 => enc_syn(*r.pick(&[0u8, 2, 4, 255]), r.u32(), 2_000_000, 1000, 1_000_000, 1472),
                    1 => enc_syn(3, r.u32(), 2_000_000, 1000, 1_000_000, 1472),
                    2 => enc_syn(3, r.u32(), 2_000_000, 2_000_000_000, 10, 1472),
                    _ => enc_hs_ack(r.u32()),
                };
                plan.push(t, 0x8000_0002, Op::Inject { to: 0, from: c, bytes, twin: false });
            }
        }
    }
    // wrong-version and refused SYNs from a raw socket (observed on the wire only)
    let raw = topo.raws[0];
    for _ in 0..r.range(0, 4) {
        let t = r.range(0, horizon / 2);
        let bytes = enc_syn(*r.pick(&[0u8, 2, 4, 255]), r.u32(), 1_000_000, 1000, 1_000_000, 1472);
        plan.push(t, 0x8000_0002, Op::Inject { to: 0, from: raw, bytes, twin: false });
    }
    if !clean {
        // some clients hang up the moment they are connected (drawn from a generator of its own):
        // the server may find the handshake's last leg and the disconnect request in one step
        let mut r = Rng::keyed(&[seed, run, 0x4a6_d15c]);
        for &c in topo.clients.iter() {
            if !r.chance(0.2) {
                continue;
            }
            let Some(t_create) = plan.timeline.iter().find(|t| matches!(t.op, Op::Create { ep } if ep == c)).map(|t| t.t_us) else { continue };
            let t = t_create + 2 * latency + r.below(2 * latency + 150_000);
            plan.push(t, r.u32() | 1, if r.chance(0.7) { Op::DisconnectNow { ep: c, to: None } } else { Op::Disconnect { ep: c, to: None } });
        }
    }
    if !clean {
        // stray frames of the other types bearing a client's own address while its handshake is
        // pending at the server (a late duplicate from an earlier connection of that address, or
        // a forgery): a disconnect request or acknowledgement, an empty sync, acknowledgement or
        // data frame. None of them carries the nonce, so none may touch the pending handshake.
        // Delivered no later than two link latencies after the client was created: its own ACK
        // cannot have arrived by then (generator of its own)
        let mut r = Rng::keyed(&[seed, run, 0x57a_d15c]);
        for &c in topo.clients.iter() {
            if !r.chance(0.3) {
                continue;
            }
            let Some(t_create) = plan.timeline.iter().find(|t| matches!(t.op, Op::Create { ep } if ep == c)).map(|t| t.t_us) else { continue };
            for _ in 0..r.range(1, 3) {
                let t = t_create + latency + r.below(latency + 1);
                let bytes = match r.below(6) {
                    0 | 1 | 2 => enc_disc(),
                    3 => enc_disc_ack(),
                    4 => enc_sync(None, None),
                    _ => enc_ack(r.u32(), r.u32() & 0xFFFFF, &[]),
                };
                plan.push(t, 0x8000_0002, Op::Inject { to: 0, from: c, bytes, twin: false });
            }
        }
    }
    // on the clean link every other run has the forger's one passive trick: a stray nonce-less
    // frame bearing the client's address the moment the server has answered its SYN; the
    // handshake has to complete all the same (clause handshake_incomplete)
    plan.adversary = if clean { if run % 2 == 1 { "stray_at_synack".into() } else { String::new() } } else { "handshake_forger".into() };
    plan.params.insert("short_ch".into(), 63.0);
    plan.end_us = horizon;
    plan.sort();
    plan
}

/// Forges handshake frames with nonces an off-path attacker could have: never the genuine one.
pub struct HandshakeForger {
    rng: Rng,
    /// genuine nonces seen on the wire: client ep -> SYN nonce; (server, client ep) -> SYN-ACK nonce
    syn: std::collections::BTreeMap<usize, u32>,
    synack: std::collections::BTreeMap<usize, u32>,
    recorded: Vec<(usize, usize, Vec<u8>)>,
    count: u64,
    max: u64,
    rate: f64,
}

impl HandshakeForger {
    pub fn new(plan: &Plan) -> Self {
        let mut rng = Rng::keyed(&[plan.fate_seed.unwrap_or(0), 0x68736667]);
        let mut rate = *rng.pick(&[0.02, 0.1, 0.3]);
        if plan.adversary == "stray_at_synack" {
            rate = 0.0;
        }
        Self { rng, syn: Default::default(), synack: Default::default(), recorded: Vec::new(), count: 0, max: 300, rate }
    }

    fn wrong(&mut self, genuine: Option<u32>) -> u32 {
        loop {
            let n = match self.rng.below(4) {
                0 => genuine.map_or(1, |g| g.wrapping_add(1)),
                1 => genuine.map_or(2, |g| g ^ 0x8000_0000),
                2 => 0,
                _ => self.rng.u32(),
            };
            if Some(n) != genuine {
                return n;
            }
        }
    }
}

impl crate::world::Adversary for HandshakeForger {
    fn on_wire(&mut self, w: &crate::world::WireRec, _now_us: u64, plan: &Plan, _out: &mut Vec<TimedOp>) {
        use uflow::verif::Serialize;
        let Some(dst) = w.dst else { return };
        match uflow::verif::Frame::read(&w.bytes) {
            Some(uflow::verif::Frame::HandshakeSynFrame(f)) if matches!(plan.endpoints[w.src].kind, EndpointKind::Client { .. }) => {
                self.syn.insert(w.src, f.nonce);
            }
            Some(uflow::verif::Frame::HandshakeSynAckFrame(f)) if matches!(plan.endpoints[w.src].kind, EndpointKind::Server { .. }) => {
                // the first SYN-ACK of a handshake is on the wire, so the server holds a pending
                // entry for that client and the client's ACK cannot arrive for two link delays: a
                // stray nonce-less frame bearing the client's address (a late duplicate of a
                // disconnect request or acknowledgement from an earlier connection of that
                // address, an empty sync or acknowledgement frame) arrives right now. It proves
                // nothing about the address and must not touch the handshake in progress
                // (coin of its own: the forger's other choices stay what they were)
                if self.synack.get(&dst) != Some(&f.nonce) && matches!(plan.endpoints[dst].kind, EndpointKind::Client { .. }) && self.count < self.max {
                    let mut coin = Rng::keyed(&[plan.fate_seed.unwrap_or(0), 0x57a1e, dst as u64, f.nonce as u64]);
                    if coin.chance(if plan.adversary == "stray_at_synack" { 0.5 } else { 0.1 }) {
                        self.count += 1;
                        let bytes = match coin.below(6) {
                            0 | 1 | 2 => enc_disc(),
                            3 => enc_disc_ack(),
                            4 => enc_sync(None, None),
                            _ => enc_ack(coin.u32(), coin.u32() & 0xFFFFF, &[]),
                        };
                        _out.push(TimedOp { t_us: _now_us + 1, rank: DELIVER_RANK_PUB, op: Op::Inject { to: w.src, from: dst, bytes, twin: false } });
                    }
                }
                self.synack.insert(dst, f.nonce);
                // a raw socket that is answered acknowledges: whatever made the server answer
                // its (wrong-version, incompatible) request, the handshake would now complete
                if matches!(plan.endpoints[dst].kind, EndpointKind::Raw) && self.count < self.max {
                    self.count += 1;
                    _out.push(TimedOp { t_us: _now_us + 20_000, rank: DELIVER_RANK_PUB, op: Op::Inject { to: w.src, from: dst, bytes: enc_hs_ack(f.nonce), twin: false } });
                }
            }
            _ => (),
        }
        if w.bytes.first().map_or(false, |t| *t <= 3) && self.recorded.len() < 200 {
            self.recorded.push((w.src, dst, (*w.bytes).clone()));
        }
    }

    fn on_call_end(&mut self, _call: u64, ep: Option<usize>, _probe: &crate::world::Probe, now_us: u64, plan: &Plan, out: &mut Vec<TimedOp>) {
        let Some(ep) = ep else { return };
        if self.count >= self.max || now_us >= plan.end_us || !self.rng.chance(self.rate) {
            return;
        }
        // a stale copy of a refusal that echoes the client's own nonce (as the server would have
        // sent it had the client's first SYN met a full server), arriving once the connection is
        // established
        if let crate::world::Probe::Client(c) = _probe {
            if c.state == 1 && self.rng.chance(0.3) {
                if let (Some(n), EndpointKind::Client { server, .. }) = (c.local_nonce.or(self.syn.get(&ep).cloned()), &plan.endpoints[ep].kind) {
                    self.count += 1;
                    let dt = self.rng.below(200_000);
                    let bytes = enc_hs_err(n, self.rng.below(3) as u8);
                    out.push(TimedOp { t_us: now_us + dt, rank: DELIVER_RANK_PUB, op: Op::Inject { to: ep, from: *server, bytes, twin: false } });
                    return;
                }
            }
        }
        let clients: Vec<usize> = plan.endpoints.iter().enumerate().filter(|(_, e)| matches!(e.kind, EndpointKind::Client { .. })).map(|(i, _)| i).collect();
        if clients.is_empty() {
            return;
        }
        let c = clients[self.rng.below(clients.len() as u64) as usize];
        let server = match &plan.endpoints[c].kind {
            EndpointKind::Client { server, .. } => *server,
            _ => return,
        };
        let _ = ep;
        let (to, from, bytes) = match self.rng.below(7) {
            // to the server, spoofing the client's address: ACK with a nonce the server did not send
            0 | 1 => {
                let g = self.synack.get(&c).cloned();
                (server, c, enc_hs_ack(self.wrong(g)))
            }
            // SYN from the client's address with another nonce (duplicate / competing handshake)
            2 => (server, c, enc_syn(3, self.rng.u32(), 1_000_000, 1000, 1_000_000, 1472)),
            // to the client, spoofing the server: SYN-ACK / error that do not echo the client's nonce
            3 => {
                let g = self.syn.get(&c).cloned();
                (c, server, enc_syn_ack(self.wrong(g), self.rng.u32(), 1_000_000, 1000, 1_000_000))
            }
            4 => {
                let g = self.syn.get(&c).cloned();
                (c, server, enc_hs_err(self.wrong(g), self.rng.below(3) as u8))
            }
            // stale copies of genuine handshake frames, replayed later
            _ => {
                if self.recorded.is_empty() {
                    return;
                }
                let (src, dst, b) = self.recorded[self.rng.below(self.recorded.len() as u64) as usize].clone();
                (dst, src, b)
            }
        };
        self.count += 1;
        let dt = if self.rng.chance(0.5) { self.rng.below(50_000) } else { self.rng.range(50_000, 20_000_000) };
        out.push(TimedOp { t_us: now_us + dt, rank: DELIVER_RANK_PUB, op: Op::Inject { to, from, bytes, twin: false } });
    }
}

/// C18: an attacker that owns two addresses, watches the nonces the server hands them, and tries
/// to complete a handshake in the name of a third address it cannot receive at, with nonces
/// extrapolated from the two it saw.
pub struct NonceGuesser {
    server: usize,
    seen: Vec<u32>,
    raws: Vec<usize>,
    fired: u32,
    near: u32,
    copied: u32,
}

impl NonceGuesser {
    pub fn new(plan: &Plan) -> Self {
        let raws: Vec<usize> = plan.endpoints.iter().enumerate().filter(|(_, e)| matches!(e.kind, EndpointKind::Raw)).map(|(i, _)| i).collect();
        Self { server: 0, seen: Vec::new(), raws, fired: 0, near: 0, copied: 0 }
    }
}

impl crate::world::Adversary for NonceGuesser {
    fn on_wire(&mut self, w: &crate::world::WireRec, now_us: u64, plan: &Plan, out: &mut Vec<TimedOp>) {
        use uflow::verif::Serialize;
        // a data frame of the genuine connection on its way to the server: now and then a copy of
        // it (or an empty data frame bearing the next sequence number) follows from one of the
        // attacker's addresses (coin keyed by the frame, at most 40 per run)
        if plan.param("copy_genuine_data_frames", 0.0) != 0.0 && w.dst == Some(self.server) && !self.raws.is_empty() && w.bytes.first() == Some(&crate::world::FRAME_DATA) && w.bytes.len() >= 9 && matches!(plan.endpoints[w.src].kind, EndpointKind::Client { .. }) && self.copied < 40 {
            let id = u32::from_be_bytes([w.bytes[1], w.bytes[2], w.bytes[3], w.bytes[4]]);
            let mut coin = Rng::keyed(&[plan.fate_seed.unwrap_or(0), 0xc0b1, id as u64]);
            if coin.chance(0.2) {
                self.copied += 1;
                let from = self.raws[coin.below(self.raws.len() as u64) as usize];
                let bytes = if coin.chance(0.5) { (*w.bytes).clone() } else { enc_data(id.wrapping_add(1 + coin.below(3) as u32), false, &[]) };
                out.push(TimedOp { t_us: now_us + coin.range(1, 200_000), rank: DELIVER_RANK_PUB, op: Op::Inject { to: self.server, from, bytes, twin: false } });
            }
        }
        if w.src != self.server || self.raws.is_empty() || now_us + 5_000_000 >= plan.end_us {
            return;
        }
        let Some(dst) = w.dst else { return };
        if !self.raws.contains(&dst) {
            return;
        }
        if let Some(uflow::verif::Frame::HandshakeSynAckFrame(f)) = uflow::verif::Frame::read(&w.bytes) {
            if self.seen.last() == Some(&f.nonce) {
                return; // a repetition of the same SYN-ACK
            }
            self.seen.push(f.nonce);
            // the very nonce, but returned from other addresses than the one it was sent to (a
            // nonce proves that its sender can receive at the address it was sent to, nothing else)
            if self.seen.len() <= 3 {
                for (i, other) in self.raws.iter().filter(|r| **r != dst).enumerate() {
                    out.push(TimedOp { t_us: now_us + 3_000 + 2_000 * i as u64, rank: DELIVER_RANK_PUB, op: Op::Inject { to: self.server, from: *other, bytes: enc_hs_ack(f.nonce), twin: false } });
                }
            }
            // near misses from the pending address itself: the right nonce in all but a few of
            // its high bits (or low bits) is not the nonce
            if self.near < 6 {
                self.near += 1;
                let k = 20 + (f.nonce.wrapping_mul(2654435761) >> 28) % 12;
                for (i, wrong) in [f.nonce ^ (1 << k), f.nonce.wrapping_add(1 << 20), f.nonce ^ 0xFFF0_0000, f.nonce ^ 1].iter().enumerate() {
                    out.push(TimedOp { t_us: now_us + 10_000 * (i as u64 + 1), rank: DELIVER_RANK_PUB, op: Op::Inject { to: self.server, from: dst, bytes: enc_hs_ack(*wrong), twin: false } });
                }
            }
            if self.seen.len() >= 2 && self.raws.len() >= 2 && self.fired < 3 {
                let n2 = self.seen[self.seen.len() - 1];
                let d = n2.wrapping_sub(self.seen[self.seen.len() - 2]);
                // the victim: another raw address (it never answers by itself in these runs)
                let victim = *self.raws.iter().rev().find(|r| **r != dst).unwrap();
                self.fired += 1;
                let t = now_us + 1000;
                out.push(TimedOp { t_us: t, rank: DELIVER_RANK_PUB, op: Op::Inject { to: self.server, from: victim, bytes: enc_syn(3, 0x0BADCAFE, 2_000_000, 1000, 1_000_000, 1472), twin: false } });
                for k in 1..=3u32 {
                    out.push(TimedOp { t_us: t + 50_000 * k as u64, rank: DELIVER_RANK_PUB, op: Op::Inject { to: self.server, from: victim, bytes: enc_hs_ack(n2.wrapping_add(d.wrapping_mul(k))), twin: false } });
                }
            }
        }
    }

    fn on_call_end(&mut self, _call: u64, _ep: Option<usize>, _probe: &crate::world::Probe, _now_us: u64, _plan: &Plan, _out: &mut Vec<TimedOp>) {}
}

/// C08 / C09: lifecycle interleavings. Random API calls on both endpoints with faults on every
/// frame type and short timeouts.
pub fn world_b_lifecycle(property: &str, scenario: &str, seed: u64, run: u64, thorough: bool) -> Plan {
    let mut r = Rng::keyed(&[seed, crate::rng::str_key(property), crate::rng::str_key(scenario), run]);
    let mut plan = Plan::new(property, scenario, seed, run);
    plan.fate_seed = Some(key(&[seed, run, 0xfa7e]));
    let n_clients = r.range(1, 4) as usize;
    let timeout = *r.pick(&[1000u64, 3000, 5000, 20_000]);
    let mut scfg = sample_cfg(&mut r);
    scfg.active_timeout_ms = timeout;
    scfg.max_packet_size = scfg.max_packet_size.min(20_000);
    let base_server = scfg.clone();
    let topo = topology(&mut plan, &mut r, n_clients, 0, scfg, 64, 32, |r, _| {
        let mut c = sample_cfg(r);
        c.active_timeout_ms = *r.pick(&[1000u64, 3000, 5000, 20_000]);
        let mut s = base_server.clone();
        make_compatible(&mut c, &mut s);
        c.max_packet_size = c.max_packet_size.min(base_server.max_receive_alloc).min(20_000);
        c.max_receive_alloc = c.max_receive_alloc.max(base_server.max_packet_size);
        c
    });
    plan.push(0, 0, Op::Create { ep: 0 });
    let latency = sample_latency(&mut r).min(100_000);
    let horizon = r.range(20, if thorough { 90 } else { 50 }) * 1_000_000;
    let mut t = 0;
    let phases = r.range(1, 3);
    for _ in 0..phases {
        let mut rule = handshake_fault_rule(&mut r, latency);
        if r.chance(0.2) {
            rule.blackout = true;
        }
        plan.push(t, 2, Op::Link { from: None, to: None, rule });
        t += horizon / phases / 2;
        plan.push(t, 2, Op::Link { from: None, to: None, rule: clean_rule(latency) });
        t += horizon / phases / 2;
    }
    let mut tag = 0u32;
    // scripted endings (after the fault phases): a close from both sides in which one side's
    // requests are lost and the other side's request arrives late
    let phases_end = horizon;
    let mut horizon = horizon;
    let scripted: Vec<bool> = topo.clients.iter().map(|_| r.chance(0.2)).collect();
    if scripted.iter().any(|s| *s) {
        horizon += 85_000_000;
    }
    for (ci, &c) in topo.clients.iter().enumerate() {
        // scripted clients connect on the clean tail of the last fault phase
        let mut t_create = if scripted[ci] { phases_end - r.range(1_500_000, 3_000_000) } else { r.range(0, 2_000_000) };
        let incarnations = if r.chance(0.3) && !scripted[ci] { 2 } else { 1 };
        if scripted[ci] {
            let t0 = phases_end + r.range(0, 2_000_000);
            // usually before the silence timeout of the side that hears nothing any more
            let to_us = |e: &crate::plan::EndpointSpec| match &e.kind {
                EndpointKind::Client { cfg, .. } | EndpointKind::Server { cfg, .. } => cfg.active_timeout_ms * 1000,
                _ => 20_000_000,
            };
            let quiet = to_us(&plan.endpoints[c]).min(to_us(&plan.endpoints[0]));
            let options: Vec<u64> = [500_000u64, 1_900_000, 2_100_000, 2_500_000, 4_000_000, 12_000_000, 19_000_000].iter().cloned().filter(|o| *o + 300_000 < quiet || r.chance(0.2)).collect();
            // ... or a true crossing on a clean link: both requests are under way at the same time
            let clean_crossing = r.chance(0.4);
            let tc = if clean_crossing { t0 + r.below(2 * latency + 20_000) } else { t0 + if options.is_empty() { 500_000 } else { *r.pick(&options) } };
            let server_first = r.chance(0.5);
            let (first, second) = if server_first { ((0usize, Some(c)), (c, None)) } else { ((c, None), (0usize, Some(c))) };
            // the first closer's Disconnect requests never arrive
            let mut lossy = clean_rule(latency);
            lossy.drop_types = 1 << crate::world::FRAME_DISC;
            lossy.drop_types_p = 1.0;
            let (lf, lt) = if server_first { (0, c) } else { (c, 0) };
            if !clean_crossing {
                plan.push(t0.saturating_sub(1000), 3, Op::Link { from: Some(lf), to: Some(lt), rule: lossy });
            }
            let now = r.chance(0.5);
            plan.push(t0, r.u32() | 1, if now { Op::DisconnectNow { ep: first.0, to: first.1 } } else { Op::Disconnect { ep: first.0, to: first.1 } });
            plan.push(tc, r.u32() | 1, if r.chance(0.5) { Op::DisconnectNow { ep: second.0, to: second.1 } } else { Op::Disconnect { ep: second.0, to: second.1 } });
            // often the same address comes back: a new client object while the server may still
            // hold the closed entry, and once more after that entry's 20 s have run out
            if r.chance(0.6) {
                let t_gone = tc + r.range(300_000, 2_000_000);
                plan.push(t_gone, 1, Op::Destroy { ep: c });
                let t_r1 = t_gone + r.range(200_000, 5_000_000);
                plan.push(t_r1, 1, Op::Create { ep: c });
                let t_gone2 = t_r1 + r.range(19_000_000, 27_000_000);
                plan.push(t_gone2, 1, Op::Destroy { ep: c });
                plan.push(t_gone2 + r.range(100_000, 2_000_000), 1, Op::Create { ep: c });
            }
        }
        for inc in 0..incarnations {
            let life_end = if inc + 1 < incarnations { t_create + r.range(2_000_000, horizon / 2) } else { horizon };
            plan.push(t_create, 1, Op::Create { ep: c });
            let cad = Cadence { period_us: r.range(2_000, 150_000), jitter: 0.5, stall_p: if r.chance(0.3) { 0.01 } else { 0.0 }, stall_max_us: 8_000_000, flush_after_step_p: 0.3 };
            cad.steps(&mut r, &mut plan, c, t_create, life_end, 5000, true);
            // application calls at random times
            for _ in 0..r.range(2, 40) {
                let t = r.range(t_create, life_end.min(phases_end).max(t_create + 1));
                match if scripted[ci] { r.range(5, 11) } else { r.below(12) } {
                    0 => plan.push(t, r.u32() | 1, Op::Disconnect { ep: c, to: None }),
                    1 => plan.push(t, r.u32() | 1, Op::DisconnectNow { ep: c, to: None }),
                    2 => plan.push(t, r.u32() | 1, Op::Disconnect { ep: 0, to: Some(c) }),
                    3 => plan.push(t, r.u32() | 1, Op::DisconnectNow { ep: 0, to: Some(c) }),
                    4 => plan.push(t, r.u32() | 1, Op::ServerDrop { ep: 0, to: c }),
                    5 | 6 | 7 | 8 => {
                        plan.push(t, 0x4000_0000 + tag, Op::Send { ep: c, to: None, ch: r.below(4) as u8, mode: r.below(4) as u8, len: r.range(12, 3000) as u32, tag });
                        tag += 1;
                    }
                    _ => {
                        plan.push(t, 0x4000_0000 + tag, Op::Send { ep: 0, to: Some(c), ch: r.below(4) as u8, mode: r.below(4) as u8, len: r.range(12, 3000) as u32, tag });
                        tag += 1;
                    }
                }
            }
            // stale copies of a refusal echoing the client's own SYN nonce (first incarnation:
            // its nonce is steered), at any point of its life including after the connection ended
            if inc == 0 && r.chance(0.4) {
                let nonce = 0x5EED_0000u32.wrapping_add(c as u32 * 7919).wrapping_add(run as u32);
                plan.endpoints[c].nonces = vec![nonce];
                for _ in 0..r.range(1, 4) {
                    let t = r.range(t_create + 1_000_000, life_end.max(t_create + 1_000_001));
                    plan.push(t, 0x8000_0002, Op::Inject { to: c, from: 0, bytes: enc_hs_err(nonce, r.below(3) as u8), twin: false });
                }
            }
            // stray handshake frames from the client's own address (duplicates, other nonces,
            // foreign protocol versions) at any point of the connection's life
            for _ in 0..r.range(0, 4) {
                let t = r.range(t_create, life_end);
                let bytes = match r.below(4) {
                    0 => enc_syn(*r.pick(&[0u8, 2, 4, 255]), r.u32(), 2_000_000, 1000, 1_000_000, 1472),
                    1 => enc_syn(3, r.u32(), 2_000_000, 1000, 1_000_000, 1472),
                    2 => enc_syn(3, r.u32(), 2_000_000, 2_000_000_000, 10, 1472),
                    _ => enc_hs_ack(r.u32()),
                };
                plan.push(t, 0x8000_0002, Op::Inject { to: 0, from: c, bytes, twin: false });
            }
            if inc + 1 < incarnations {
                plan.push(life_end, 1, Op::Destroy { ep: c });
                t_create = life_end + r.range(100_000, 10_000_000);
            }
        }
    }
    let cad = Cadence { period_us: r.range(2_000, 100_000), jitter: 0.5, stall_p: if r.chance(0.3) { 0.005 } else { 0.0 }, stall_max_us: 8_000_000, flush_after_step_p: 0.3 };
    cad.steps(&mut r, &mut plan, 0, 0, horizon, 12_000, true);
    {
        // drawn from a generator of their own, so that the rest of the plan does not depend on them
        let mut r = Rng::keyed(&[seed, run, 0x11fe_c7c1]);
        // a connection table that is full or nearly so: what the server does for one address
        // then depends on the entries of the others (refusals, slots that have to come back)
        if r.chance(0.35) {
            if let EndpointKind::Server { max_total, max_active, .. } = &mut plan.endpoints[0].kind {
                *max_total = r.range(1, n_clients as u64);
                *max_active = if r.chance(0.5) { r.range(1, *max_total) } else { 32 };
            }
        }
        // busy steps: every client hands over a burst of small packets at about the same
        // moment, one connection ends right then, and the server application polls rarely
        // around it, so that one step() returns dozens of events of several connections
        if r.chance(0.25) {
            for _ in 0..r.range(1, 3) {
                // (in the clean half of a fault phase, when most connections are up)
                let span = phases_end / phases / 2;
                let k = r.below(phases);
                let tb = (2 * k + 1) * span + r.range(span / 4, span.max(4));
                let quiet = latency + r.range(20_000, 300_000);
                plan.timeline.retain(|t| !(matches!(t.op, Op::Step { ep: 0 } | Op::Flush { ep: 0 }) && t.t_us + quiet > tb && t.t_us < tb + quiet));
                // half of the time nothing has ended a connection before
                if r.chance(0.5) {
                    plan.timeline.retain(|t| !(matches!(t.op, Op::Disconnect { .. } | Op::DisconnectNow { .. } | Op::ServerDrop { .. }) && t.t_us < tb));
                }
                for &c in topo.clients.iter() {
                    let n = r.range(6, 40);
                    let from_server = r.chance(0.2);
                    for _ in 0..n {
                        let t = tb - r.below(30_000);
                        let (ep, to) = if from_server { (0, Some(c)) } else { (c, None) };
                        plan.push(t, 0x4000_0000 + tag, Op::Send { ep, to, ch: r.below(4) as u8, mode: r.below(4) as u8, len: r.range(12, 60) as u32, tag });
                        tag += 1;
                    }
                }
                let c = *r.pick(&topo.clients);
                let t = tb + r.below(2000);
                match r.below(4) {
                    0 => plan.push(t, r.u32() | 1, Op::Disconnect { ep: c, to: None }),
                    1 => plan.push(t, r.u32() | 1, Op::DisconnectNow { ep: c, to: None }),
                    2 => plan.push(t, r.u32() | 1, Op::DisconnectNow { ep: 0, to: Some(c) }),
                    _ => plan.push(t, r.u32() | 1, Op::Disconnect { ep: 0, to: Some(c) }),
                }
            }
        }
    }
    plan.params.insert("short_ch".into(), 63.0);
    plan.end_us = horizon;
    plan.sort();
    plan
}

/// C17: many clients against small limits.
/// C17 (runs added later): a server that fills up with long-lived idle connections, one arriving
/// after the other, while a send call of the server fails at about the moment a request is
/// answered (the first SYN-ACK of a handshake is lost inside the server); 23-45 s later - after
/// every retransmission chain that began with the first handshakes has run out - more clients
/// arrive at the full server.
pub fn world_b_limits_long(property: &str, scenario: &str, seed: u64, run: u64) -> Plan {
    let mut r = Rng::keyed(&[seed, crate::rng::str_key(property), crate::rng::str_key(scenario), run, 0x1099]);
    let mut plan = Plan::new(property, scenario, seed, run);
    plan.fate_seed = Some(key(&[seed, run, 0xfa7e]));
    let max_active = r.range(1, 3);
    let max_total = max_active + r.below(3);
    let n_first = max_active as usize;
    let n_late = r.range(1, 3) as usize;
    let topo = topology(&mut plan, &mut r, n_first + n_late, 0, EndpointCfg::default(), max_total, max_active, |_, _| EndpointCfg::default());
    if let EndpointKind::Server { handshake_errors, .. } = &mut plan.endpoints[0].kind {
        *handshake_errors = r.chance(0.3);
    }
    plan.push(0, 0, Op::Create { ep: 0 });
    let latency = r.range(500, 30_000);
    plan.push(0, 2, Op::Link { from: None, to: None, rule: clean_rule(latency) });
    plan.params.insert("limits_clean_link".into(), 0.0);
    let horizon = 70_000_000;
    let period0 = r.range(5_000, 50_000);
    plan.push(r.below(period0), r.u32() | 1, Op::StepEvery { ep: 0, period_us: period0, until_us: horizon });
    let mut t = r.range(100_000, 1_000_000);
    for (i, &c) in topo.clients.iter().enumerate() {
        let t_create = if i < n_first { t } else { r.range(23_000_000, 45_000_000) };
        plan.push(t_create, 1, Op::Create { ep: c });
        plan.params.insert(format!("created_ep{}", c), 1.0);
        if i < n_first && r.chance(0.8) {
            // the server's next send call fails: set just before the request arrives
            plan.push(t_create + latency - r.below(latency.min(400)), 0x8000_0004, Op::SockErr { ep: 0, recv: 0, send: 1 });
        }
        let period = r.range(5_000, 50_000);
        plan.push(t_create + r.below(period), r.u32() | 1, Op::StepEvery { ep: c, period_us: period, until_us: horizon });
        if i < n_first {
            t += r.range(300_000, 2_500_000);
        }
    }
    plan.end_us = horizon;
    plan.sort();
    plan
}

pub fn world_b_limits(property: &str, scenario: &str, seed: u64, run: u64, thorough: bool, clean: bool) -> Plan {
    let mut r = Rng::keyed(&[seed, crate::rng::str_key(property), crate::rng::str_key(scenario), run]);
    let mut plan = Plan::new(property, scenario, seed, run);
    plan.fate_seed = Some(key(&[seed, run, 0xfa7e]));
    // swept: limit settings by run index, both orders
    let max_active = 1 + (run / 2) % 6;
    let max_total = 1 + (run / 12) % 12;
    let n_clients = r.range(1, 12) as usize;
    let mut scfg = EndpointCfg::default();
    scfg.active_timeout_ms = *r.pick(&[2000u64, 5000, 20_000, 60_000, 120_000]);
    let to = scfg.active_timeout_ms;
    let topo = topology(&mut plan, &mut r, n_clients + 1, 0, scfg, max_total, max_active, |_, _| {
        let mut c = EndpointCfg::default();
        c.active_timeout_ms = to;
        c
    });
    if let EndpointKind::Server { handshake_errors, .. } = &mut plan.endpoints[0].kind {
        *handshake_errors = r.chance(0.5);
    }
    plan.push(0, 0, Op::Create { ep: 0 });
    // latencies chosen so that many SYNs precede the first ACK
    let latency = *r.pick(&[1_000u64, 20_000, 100_000, 300_000]);
    let mut rule = if clean { clean_rule(latency) } else { handshake_fault_rule(&mut r, latency) };
    rule.blackout = false;
    plan.push(0, 2, Op::Link { from: None, to: None, rule });
    if clean {
        plan.params.insert("limits_clean_link".into(), 1.0);
    }
    let horizon = r.range(40, if thorough { 120 } else { 70 }) * 1_000_000;
    let burst_at = r.range(0, 1_000_000);
    let burst2_at = r.range(horizon / 3, 2 * horizon / 3);
    let late = *topo.clients.last().unwrap();
    let mut last_end = 0u64;
    for &c in topo.clients.iter().take(n_clients) {
        // arrivals in bursts, some later
        // ... and a second wave while connections of the first are ending or lingering
        let t_create = match r.below(10) {
            0..=4 => burst_at + r.below(latency / 2 + 1000),
            5..=7 => burst2_at + r.below(latency / 2 + 1000),
            _ => r.range(0, horizon / 3),
        };
        plan.push(t_create, 1, Op::Create { ep: c });
        let cad = Cadence { period_us: r.range(5_000, 50_000), jitter: 0.3, stall_p: 0.0, stall_max_us: 0, flush_after_step_p: 0.0 };
        // how the connection ends
        let t_end = (t_create + r.range(3_000_000, horizon / 3)).min(horizon);
        let ending = r.below(14);
        if ending != 7 {
            plan.params.insert(format!("created_ep{}", c), 1.0);
        }
        let life = match ending {
            8 => {
                // both sides close at about the same time: the server is already closing when
                // the client's own request arrives
                let server_first = r.chance(0.7);
                let skew = r.below(2 * latency + 50_000);
                let (ts, tc) = if server_first { (t_end, t_end + skew) } else { (t_end + skew, t_end) };
                plan.push(ts, r.u32() | 1, if r.chance(0.5) { Op::Disconnect { ep: 0, to: Some(c) } } else { Op::DisconnectNow { ep: 0, to: Some(c) } });
                plan.push(tc, r.u32() | 1, if r.chance(0.5) { Op::Disconnect { ep: c, to: None } } else { Op::DisconnectNow { ep: c, to: None } });
                horizon
            }
            13 => {
                // the server application hangs up gracefully with nothing left to flush, and the
                // client vanishes before the request reaches it: the request is repeated for its
                // budget and the entry is then forgotten
                plan.push(t_end, r.u32() | 1, Op::Disconnect { ep: 0, to: Some(c) });
                plan.push(t_end + r.below(latency.max(1)), 1, Op::Destroy { ep: c });
                t_end
            }
            12 => {
                // the client disconnects, the server application drops the closed entry, and the
                // same address comes back at once and stays beyond the old entry's 20 s
                plan.push(t_end, r.u32() | 1, Op::DisconnectNow { ep: c, to: None });
                let t_drop = t_end + r.range(2 * latency + 50_000, 2 * latency + 1_500_000);
                plan.push(t_drop, r.u32() | 1, Op::ServerDrop { ep: 0, to: c });
                let t_gone = t_drop + r.range(10_000, 500_000);
                plan.push(t_gone, 1, Op::Destroy { ep: c });
                let t_again = t_gone + r.range(100_000, 5_000_000);
                cad.steps(&mut r, &mut plan, c, t_create, t_gone.min(horizon), 8000, false);
                if t_again + 1_000_000 < horizon {
                    plan.push(t_again, 1, Op::Create { ep: c });
                    cad.steps(&mut r, &mut plan, c, t_again, horizon, 8000, false);
                    last_end = horizon + 60_000_000;
                }
                last_end = last_end.max(t_gone);
                continue;
            }
            11 => {
                // the server application disconnects the client while its handshake is still in
                // progress (between SYN and ACK)
                let t = t_create + latency + r.range(10_000, latency.max(10_001) + 40_000);
                plan.push(t, r.u32() | 1, if r.chance(0.5) { Op::Disconnect { ep: 0, to: Some(c) } } else { Op::DisconnectNow { ep: 0, to: Some(c) } });
                t_end.max(t)
            }
            10 => {
                // the client vanishes; the server application, unaware, queues reliable data and
                // asks for a graceful disconnect: only the silence timeout can end this
                plan.push(t_end, 1, Op::Destroy { ep: c });
                let t = t_end + r.below(500_000);
                plan.push(t, 0x4000_0000 + c as u32, Op::Send { ep: 0, to: Some(c), ch: 0, mode: MODE_RELIABLE, len: r.range(12, 3000) as u32, tag: 900_000 + c as u32 });
                plan.push(t + 1, r.u32() | 1, Op::Disconnect { ep: 0, to: Some(c) });
                t_end
            }
            9 => {
                // the client disconnects, is replaced by a new client object on the same address
                // within the server's 20 s linger, and that connection outlives the linger
                plan.push(t_end, r.u32() | 1, Op::DisconnectNow { ep: c, to: None });
                let t_gone = t_end + r.range(300_000, 2_000_000);
                plan.push(t_gone, 1, Op::Destroy { ep: c });
                let t_again = t_gone + r.range(100_000, 12_000_000);
                cad.steps(&mut r, &mut plan, c, t_create, t_gone.min(horizon), 8000, false);
                if t_again + 1_000_000 < horizon {
                    plan.push(t_again, 1, Op::Create { ep: c });
                    cad.steps(&mut r, &mut plan, c, t_again, horizon, 8000, false);
                    // it stays until the end of the run: the late-client clause does not apply
                    last_end = horizon + 60_000_000;
                }
                last_end = last_end.max(t_gone);
                continue;
            }
            5 | 6 => {
                // a disconnect by either side, and the application drops the (closing or
                // closed, still tracked) entry shortly afterwards
                if ending == 5 {
                    plan.push(t_end, r.u32() | 1, Op::Disconnect { ep: c, to: None });
                } else {
                    plan.push(t_end, r.u32() | 1, Op::Disconnect { ep: 0, to: Some(c) });
                }
                plan.push(t_end + r.range(50_000, 5_000_000), r.u32() | 1, Op::ServerDrop { ep: 0, to: c });
                horizon
            }
            7 => {
                // abandoned handshake: the client vanishes right after its SYN
                let t_gone = t_create + r.below(2 * latency + 1000);
                plan.push(t_gone, 1, Op::Destroy { ep: c });
                last_end = last_end.max(t_gone);
                cad.steps(&mut r, &mut plan, c, t_create, t_gone.min(horizon), 8000, false);
                continue;
            }
            0 => {
                plan.push(t_end, r.u32() | 1, Op::Disconnect { ep: c, to: None });
                horizon
            }
            1 => {
                plan.push(t_end, r.u32() | 1, Op::Disconnect { ep: 0, to: Some(c) });
                horizon
            }
            2 => {
                plan.push(t_end, r.u32() | 1, Op::ServerDrop { ep: 0, to: c });
                horizon
            }
            3 => {
                // client crash: the server notices by its silence timer
                plan.push(t_end, 1, Op::Destroy { ep: c });
                t_end
            }
            _ => {
                plan.push(t_end, r.u32() | 1, Op::DisconnectNow { ep: c, to: None });
                horizon
            }
        };
        last_end = last_end.max(t_end);
        cad.steps(&mut r, &mut plan, c, t_create, life.min(horizon), 8000, false);
    }
    // a late client, after every earlier connection has ended and closed entries have expired
    let t_late = last_end + 22_000_000 + to * 1000 + 2_000_000;
    if clean && t_late + 6_000_000 < horizon + 60_000_000 {
        plan.push(t_late, 1, Op::Create { ep: late });
        let cad = Cadence { period_us: 20_000, jitter: 0.0, stall_p: 0.0, stall_max_us: 0, flush_after_step_p: 0.0 };
        cad.steps(&mut r, &mut plan, late, t_late, t_late + 5_000_000, 1000, false);
        plan.params.insert("late_client_ep".into(), late as f64);
        plan.params.insert(format!("created_ep{}", late), 1.0);
        plan.end_us = t_late + 5_000_000;
    } else {
        plan.end_us = horizon;
    }
    let cad = Cadence { period_us: r.range(5_000, 40_000), jitter: 0.3, stall_p: 0.0, stall_max_us: 0, flush_after_step_p: 0.0 };
    let end = plan.end_us;
    cad.steps(&mut r, &mut plan, 0, 0, end, 20_000, false);
    plan.sort();
    plan
}

/// C18: spoofable addresses that never return a nonce.
pub fn world_b_spoof(property: &str, scenario: &str, seed: u64, run: u64, thorough: bool) -> Plan {
    let mut r = Rng::keyed(&[seed, crate::rng::str_key(property), crate::rng::str_key(scenario), run]);
    let mut plan = Plan::new(property, scenario, seed, run);
    plan.fate_seed = Some(key(&[seed, run, 0xfa7e]));
    let n_raw = r.range(1, 5) as usize;
    let mut scfg = EndpointCfg::default();
    scfg.max_packet_size = 50_000;
    let (max_total, max_active) = if run % 3 == 0 { (r.range(1, 3), r.range(1, 3)) } else { (4096, 32) };
    let topo = topology(&mut plan, &mut r, 1, n_raw, scfg, max_total, max_active, |_, _| EndpointCfg::default());
    plan.push(0, 0, Op::Create { ep: 0 });
    plan.push(0, 2, Op::Link { from: None, to: None, rule: clean_rule(r.range(100, 50_000)) });
    // one genuine client keeps the server busy (and may occupy its capacity)
    let genuine = topo.clients[0];
    if r.chance(0.7) {
        plan.push(r.range(0, 1_000_000), 1, Op::Create { ep: genuine });
    }
    let horizon = r.range(25, if thorough { 80 } else { 45 }) * 1_000_000;
    let cad = Cadence { period_us: r.range(2_000, 60_000), jitter: 0.3, stall_p: 0.0, stall_max_us: 0, flush_after_step_p: 0.1 };
    cad.steps(&mut r, &mut plan, 0, 0, horizon, 20_000, false);
    cad.steps(&mut r, &mut plan, genuine, 0, horizon, 10_000, false);
    // swept: undersized SYN lengths, 16 per run
    let sweep_base = 5 + ((run * 16) % 1467) as usize;
    for (k, &raw) in topo.raws.iter().enumerate() {
        plan.push(0, 1, Op::Create { ep: raw });
        let style = r.below(7);
        if style == 6 {
            // "promote me": a valid SYN with a nonce of the sender's own choosing, then frames
            // that prove nothing (a data frame numbered with that nonce, an ACK repeating it,
            // sync / ack frames) - and a server application that greets whoever is connected
            let x = r.u32();
            let mut t = r.range(0, 2_000_000);
            plan.push(t, 0x8000_0002, Op::Inject { to: 0, from: raw, bytes: enc_syn(3, x, 2_000_000, 1000, 1_000_000, 1472), twin: false });
            for _ in 0..r.range(1, 4) {
                t += r.range(20_000, 400_000);
                let bytes = match r.below(5) {
                    0 | 1 => enc_data(x.wrapping_add(r.below(4096) as u32), false, &[]),
                    2 => enc_hs_ack(x.wrapping_add(r.below(2) as u32)),
                    3 => enc_sync(Some(x), Some(x & 0xFFFFF)),
                    _ => enc_ack(x, x & 0xFFFFF, &[(x, 1, 0)]),
                };
                plan.push(t, 0x8000_0002, Op::Inject { to: 0, from: raw, bytes, twin: false });
            }
        }
        // the server application sends to every address it believes connected, now and then
        {
            let mut t = r.range(500_000, 3_000_000);
            let mut tag = 800_000 + 1000 * k as u32;
            while t < horizon {
                plan.push(t, 0x4000_0000 + tag, Op::Send { ep: 0, to: Some(raw), ch: 0, mode: MODE_RELIABLE, len: 20_000, tag });
                tag += 1;
                t += r.range(2_000_000, 6_000_000);
            }
        }
        // style 5: one valid SYN buys a pending entry, then a long burst of one kind of small
        // stray frame arrives inside the handshake window (each may elicit at most nothing)
        let n = if style == 5 { r.range(80, 400) } else { r.range(1, 30) };
        let mut t = r.range(0, 2_000_000);
        let burst_kind = r.below(7);
        for j in 0..n {
            if style == 6 {
                break;
            }
            if style == 5 {
                let bytes = if j == 0 {
                    enc_syn(3, 0x1234_5678 + k as u32, 2_000_000, 1000, 1_000_000, 1472)
                } else {
                    match burst_kind {
                        0 => enc_hs_ack(r.u32()),
                        1 => enc_disc(),
                        2 => enc_disc_ack(),
                        3 => enc_ack(r.u32(), r.u32() & 0xFFFFF, &[]),
                        4 => enc_sync(None, None),
                        5 => enc_syn(if r.chance(0.5) { 3 } else { 4 }, 0x1234_5678 + k as u32, 2_000_000, 1000, 1_000_000, 5 + r.below(40) as usize),
                        _ => enc_data(r.u32(), false, &[]),
                    }
                };
                plan.push(t, 0x8000_0002, Op::Inject { to: 0, from: raw, bytes, twin: false });
                t += if j == 0 { r.range(1000, 200_000) } else { r.range(0, 60_000) };
                if t >= horizon {
                    break;
                }
                continue;
            }
            let bytes = match if style == 4 { r.below(8) } else { style * 2 + r.below(2) } {
                // valid full-size SYN, repeated with the same or a fresh nonce
                0 | 1 => enc_syn(3, if r.chance(0.5) { 0x1234_5678 + k as u32 } else { r.u32() }, 2_000_000, 1000, 1_000_000, 1472),
                // undersized SYNs (CRC-valid)
                2 | 3 => enc_syn(if r.chance(0.7) { 3 } else { *r.pick(&[0u8, 2, 4, 200]) }, r.u32(), 2_000_000, 1000, 1_000_000, (sweep_base + (j as usize * 97)) % 1467 + 5),
                // wrong version / refused configuration
                4 => enc_syn(*r.pick(&[0u8, 2, 4, 200]), r.u32(), 2_000_000, 1000, 1_000_000, 1472),
                5 => enc_syn(3, r.u32(), 2_000_000, 2_000_000_000, 10, 1472),
                // stray frames of every other type
                6 => match r.below(6) {
                    0 => enc_hs_ack(r.u32()),
                    1 => enc_disc(),
                    2 => enc_disc_ack(),
                    3 => enc_ack(r.u32(), r.u32() & 0xFFFFF, &[(r.u32(), 1, 0)]),
                    4 => enc_sync(Some(r.u32()), Some(r.u32() & 0xFFFFF)),
                    _ => enc_syn_ack(r.u32(), r.u32(), 1, 1, 1),
                },
                _ => enc_data(r.u32(), false, &[RawDatagram { seq: r.u32() & 0xFFFFF, ch: 0, wlead: 0, clead: 0, frag: 0, last: 0, data: vec![7; r.range(0, 60) as usize], enc: 0 }]),
            };
            plan.push(t, 0x8000_0002, Op::Inject { to: 0, from: raw, bytes, twin: false });
            t += match r.below(4) {
                0 => r.range(0, 1000),
                1 => r.range(1000, 500_000),
                2 => r.range(500_000, 3_000_000),
                _ => r.range(3_000_000, 25_000_000),
            };
            if t >= horizon {
                break;
            }
        }
        // the raw socket drains what the server sends it
        let mut ts = 0;
        while ts < horizon {
            plan.push(ts, 5, Op::Step { ep: raw });
            ts += 1_000_000;
        }
    }
    {
        // the genuine connection carries traffic in both directions in half of the runs that
        // have one (generator of its own): its data frames, copied by the adversary and sent
        // again from the spoofable addresses, carry sequence numbers the server expects - from
        // the genuine client's address. A frame proves nothing about any other address
        let mut r = Rng::keyed(&[seed, run, 0x18_0019]);
        let has_genuine = plan.timeline.iter().any(|t| matches!(t.op, Op::Create { ep } if ep == genuine));
        if has_genuine && r.chance(0.5) {
            let mut t = r.range(1_500_000, 3_000_000);
            let mut tag = 850_000u32;
            while t < horizon {
                plan.push(t, 0x4000_0000 + tag, Op::Send { ep: 0, to: Some(genuine), ch: 0, mode: MODE_RELIABLE, len: r.range(200, 6000) as u32, tag });
                plan.push(t + r.below(100_000), 0x4000_0000 + tag + 1, Op::Send { ep: genuine, to: None, ch: 1, mode: MODE_UNRELIABLE, len: r.range(20, 200) as u32, tag: tag + 1 });
                tag += 2;
                t += r.range(300_000, 3_000_000);
            }
            plan.params.insert("copy_genuine_data_frames".into(), 1.0);
        }
    }
    {
        // bursts of failing receive calls at the server (1 .. 1000 in a row), at any time and
        // right after datagrams from the spoofable addresses (drawn from a generator of its own)
        let mut r = Rng::keyed(&[seed, run, 0x50c_18a]);
        if r.chance(0.5) {
            let injected: Vec<u64> = plan.timeline.iter().filter(|t| matches!(t.op, Op::Inject { .. })).map(|t| t.t_us).collect();
            for _ in 0..r.range(1, 6) {
                let t = if r.chance(0.6) && !injected.is_empty() { *r.pick(&injected) + r.below(120_000) } else { r.range(0, horizon) };
                plan.push(t, 0x8000_0004, Op::SockErr { ep: 0, recv: *r.pick(&[1u32, 2, 3, 10, 50, 200, 400, 1000]), send: 0 });
            }
        }
    }
    if run >= 10_000 && run % 2 == 0 {
        // (runs added later) the first spoofable address does nothing but this: one valid,
        // fully padded request, then 500-900 repeats of the same request (same nonce) in
        // frames of 22-24 bytes - CRC-valid, undersized - within the time the handshake stays
        // pending: were each of them answered with a 25-byte SYN-ACK, the head start of the
        // first 1472 bytes would be used up after 491 of them
        let mut r = Rng::keyed(&[seed, run, 0x18_0021]);
        let raw = topo.raws[0];
        plan.timeline.retain(|t| !matches!(&t.op, Op::Inject { from, .. } if *from == raw));
        let x = r.u32();
        let mut t = r.range(100_000, 3_000_000);
        plan.push(t, 0x8000_0002, Op::Inject { to: 0, from: raw, bytes: enc_syn(3, x, 2_000_000, 1000, 1_000_000, 1472), twin: false });
        t += r.range(1000, 300_000);
        for _ in 0..r.range(500, 900) {
            plan.push(t, 0x8000_0002, Op::Inject { to: 0, from: raw, bytes: enc_syn(3, x, 2_000_000, 1000, 1_000_000, *r.pick(&[22usize, 22, 22, 23, 24])), twin: false });
            t += r.range(0, 35_000);
        }
    }
    plan.end_us = horizon;
    plan.sort();
    plan
}

/// C18, long waits: abandoned handshakes watched for five minutes on servers whose (unrelated)
/// silence timeout is configured long, with and without a trickle of stray non-handshake frames.
pub fn world_b_spoof_long(property: &str, scenario: &str, seed: u64, run: u64, _thorough: bool) -> Plan {
    let mut r = Rng::keyed(&[seed, crate::rng::str_key(property), crate::rng::str_key(scenario), run]);
    let mut plan = Plan::new(property, scenario, seed, run);
    plan.fate_seed = Some(key(&[seed, run, 0xfa7e]));
    let n_raw = r.range(1, 3) as usize;
    let mut scfg = EndpointCfg::default();
    scfg.active_timeout_ms = *r.pick(&[20_000u64, 120_000, 200_000, 300_000, 511_000, 600_000]);
    let topo = topology(&mut plan, &mut r, 1, n_raw, scfg, 4096, 32, |_, _| EndpointCfg::default());
    if let EndpointKind::Server { handshake_errors, .. } = &mut plan.endpoints[0].kind {
        *handshake_errors = r.chance(0.5);
    }
    plan.push(0, 0, Op::Create { ep: 0 });
    plan.push(0, 2, Op::Link { from: None, to: None, rule: clean_rule(r.range(100, 50_000)) });
    let horizon = 300_000_000;
    let period = r.range(20_000, 100_000);
    if r.chance(0.4) {
        // the server application stalls once for 2-25 s while handshakes are pending (a
        // retransmission that falls due in the meantime is handled late)
        let t_stall = r.range(500_000, 23_000_000);
        let d = *r.pick(&[2_100_000u64, 3_000_000, 4_500_000, 8_000_000, 21_000_000, 25_000_000]);
        plan.push(r.below(50_000), 3, Op::StepEvery { ep: 0, period_us: period, until_us: t_stall });
        plan.push(t_stall + d, 3, Op::StepEvery { ep: 0, period_us: period, until_us: horizon });
    } else {
        plan.push(r.below(50_000), 3, Op::StepEvery { ep: 0, period_us: period, until_us: horizon });
    }
    for (k, &raw) in topo.raws.iter().enumerate() {
        plan.push(0, 1, Op::Create { ep: raw });
        let t0 = r.range(0, 2_000_000);
        let syn = enc_syn(3, 0x2345_6789 + k as u32, 2_000_000, 1000, 1_000_000, 1472);
        plan.push(t0, 0x8000_0002, Op::Inject { to: 0, from: raw, bytes: syn.clone(), twin: false });
        // the server's send call fails just when it answers the request (the answer is lost; the
        // retransmissions follow their schedule)
        if r.chance(0.3) {
            plan.push(t0 + 1, 0x8000_0003, Op::SockErr { ep: 0, recv: 0, send: r.range(1, 2) as u32 });
        }
        // the same request again (same nonce): once at any time before the handshake times out,
        // once in its last two seconds, or a dozen times in quick succession
        match r.below(6) {
            0 => plan.push(t0 + r.range(100_000, 22_000_000), 0x8000_0002, Op::Inject { to: 0, from: raw, bytes: syn.clone(), twin: false }),
            1 | 2 => plan.push(t0 + r.range(20_050_000, 21_950_000), 0x8000_0002, Op::Inject { to: 0, from: raw, bytes: syn.clone(), twin: false }),
            3 => {
                let mut t = t0 + r.range(100_000, 15_000_000);
                for _ in 0..r.range(2, 14) {
                    plan.push(t, 0x8000_0002, Op::Inject { to: 0, from: raw, bytes: syn.clone(), twin: false });
                    t += r.range(1_000, 400_000);
                }
            }
            _ => (),
        }
        if r.chance(0.6) {
            // a trickle of small frames that mean nothing before the handshake has completed
            let kind = r.below(4);
            let mut t = t0 + r.range(100_000, 19_000_000);
            // (a keyed draw of its own: several of them inside every 2 s retransmission interval,
            // or one every few seconds)
            let dense = key(&[seed, run, k as u64, 0xde25e]) % 5 < 2;
            let dense_gap = 300_000 + key(&[seed, run, k as u64, 0xde25f]) % 1_690_000;
            while t < horizon {
                let bytes = match kind {
                    0 => enc_data(r.u32(), false, &[]),
                    1 => enc_sync(Some(r.u32()), Some(r.u32() & 0xFFFFF)),
                    2 => enc_ack(r.u32(), r.u32() & 0xFFFFF, &[]),
                    _ => match r.below(3) {
                        0 => enc_data(r.u32(), false, &[]),
                        1 => enc_sync(None, None),
                        _ => enc_ack(r.u32(), r.u32() & 0xFFFFF, &[(r.u32(), 1, 0)]),
                    },
                };
                plan.push(t, 0x8000_0002, Op::Inject { to: 0, from: raw, bytes, twin: false });
                t += if dense { r.range(dense_gap * 9 / 10, dense_gap) } else { r.range(3_000_000, 19_000_000) };
            }
        }
        plan.push(500_000, 5, Op::StepEvery { ep: raw, period_us: 1_000_000, until_us: horizon });
    }
    {
        // trouble at the server's socket while handshakes are pending (drawn from a generator of
        // its own): periods of 0.05-4 s during which every send call fails, and bursts of up to
        // 400 failing receive calls (often right after a connection request has been read)
        let mut r = Rng::keyed(&[seed, run, 0x50c_18]);
        if r.chance(0.5) {
            for _ in 0..r.range(1, 3) {
                let t = r.range(100_000, 24_000_000);
                plan.push(t, 0x8000_0004, Op::SockErr { ep: 0, recv: 0, send: 1_000_000 });
                plan.push(t + r.log_range(50_000, 4_000_000), 0x8000_0004, Op::SockErr { ep: 0, recv: 0, send: 0 });
            }
        }
        if r.chance(0.5) {
            for _ in 0..r.range(1, 4) {
                let t = if r.chance(0.5) { r.range(0, 2_000_000) + r.below(200_000) } else { r.range(100_000, 60_000_000) };
                plan.push(t, 0x8000_0004, Op::SockErr { ep: 0, recv: r.log_range(1, 400) as u32, send: 0 });
            }
        }
    }
    plan.end_us = horizon;
    plan.sort();
    plan
}

/// C09: queue data, then disconnect() / disconnect_now() from either side, with faults on
/// everything and (often) a total blackout right after the call.
/// C09, reachable peer: a clean link on which only disconnect acknowledgements are lost for a few
/// seconds; the call may come within two seconds of the connection's SYN. The retries must end
/// in Disconnect on both sides.
fn world_b_disconnect_reachable(property: &str, scenario: &str, seed: u64, run: u64, short_timeouts: bool) -> Plan {
    let mut r = Rng::keyed(&[seed, crate::rng::str_key(property), crate::rng::str_key(scenario), run, 0xea51]);
    let mut plan = Plan::new(property, scenario, seed, run);
    plan.fate_seed = Some(key(&[seed, run, 0xfa7e]));
    let mut cfg = EndpointCfg::default();
    cfg.active_timeout_ms = 60_000;
    let cc = cfg.clone();
    let topo = topology(&mut plan, &mut r, 1, 0, cfg, 64, 32, move |_, _| cc.clone());
    let c = topo.clients[0];
    let latency = r.range(100, 40_000);
    plan.push(0, 0, Op::Create { ep: 0 });
    plan.push(0, 2, Op::Link { from: None, to: None, rule: clean_rule(latency) });
    let mut t_create = r.below(100_000);
    plan.push(t_create, 1, Op::Create { ep: c });
    let mut second_life = false;
    if r.chance(0.4) {
        // an earlier connection from the same address was closed by the client a little while
        // ago: the server may still hold its closed entry (20 s) when the new one is set up, and
        // that entry's timer runs out during the new connection's life
        second_life = true;
        let t_close = t_create + r.range(400_000, 1_500_000);
        plan.push(t_close, 0x6000_0003, Op::DisconnectNow { ep: c, to: None });
        let t_gone = t_close + r.range(300_000, 1_500_000);
        plan.push(t_gone, 1, Op::Destroy { ep: c });
        t_create = t_gone + r.range(200_000, 6_000_000);
        plan.push(t_create, 1, Op::Create { ep: c });
    }
    let mut t_call = if second_life { t_create + r.range(15_000_000, 26_000_000) } else { t_create + *r.pick(&[300_000u64, 800_000, 1_500_000, 1_900_000, 2_500_000, 6_000_000]) };
    let caller_is_client = r.chance(0.6);
    if short_timeouts && !second_life {
        // (runs added later) silence timeouts of 3-15 s, chosen per side, instead of one minute:
        // nothing about the disconnect exchange may depend on them - a side that has closed
        // answers repeated requests for as long as the other side may repeat them. The call
        // comes early, so that the idle connection cannot time out before it (and not in a second
        // life, whose call comes 15-26 s after the handshake)
        let mut rs = Rng::keyed(&[seed, run, 0x5407_7]);
        for e in plan.endpoints.iter_mut() {
            let to = *rs.pick(&[3000u64, 4000, 5000, 8000, 15_000]);
            match &mut e.kind {
                EndpointKind::Client { cfg, .. } | EndpointKind::Server { cfg, .. } => cfg.active_timeout_ms = to,
                _ => (),
            }
        }
        t_call = t_create + *rs.pick(&[300_000u64, 800_000, 1_500_000, 1_900_000]);
    }
    let (caller, caller_to) = if caller_is_client { (c, None) } else { (0usize, Some(c)) };
    plan.push(t_call, 0x6000_0000, if r.chance(0.5) { Op::Disconnect { ep: caller, to: caller_to } } else { Op::DisconnectNow { ep: caller, to: caller_to } });
    let mut lossy = clean_rule(latency);
    lossy.drop_types = 1 << crate::world::FRAME_DISC_ACK;
    lossy.drop_types_p = 1.0;
    plan.push(t_call.saturating_sub(1000), 2, Op::Link { from: None, to: None, rule: lossy });
    {
        // crossing closes (drawn from a generator of its own): the other side calls too, at about
        // the same time, and for the few seconds of loss each direction loses its disconnect
        // requests, its acknowledgements, both or neither. Both sides stay reachable, so both
        // attempts have to end in Disconnect.
        let mut r = Rng::keyed(&[seed, run, 0xc9055]);
        // (not with the short silence timeouts: when the requests themselves are lost for
        // longer than the other side's timeout, that side rightly gives the connection up and
        // the caller's attempt rightly ends in Error(Timeout))
        if r.chance(0.35) && !short_timeouts {
            let (other, other_to) = if caller_is_client { (0usize, Some(c)) } else { (c, None) };
            let t_other = (t_call + r.below(2 * latency + 30_000)).saturating_sub(r.below(latency + 1));
            plan.push(t_other, 0x6000_0001, if r.chance(0.5) { Op::Disconnect { ep: other, to: other_to } } else { Op::DisconnectNow { ep: other, to: other_to } });
            for (from, to) in [(0usize, c), (c, 0usize)] {
                let mut rule = clean_rule(latency);
                rule.drop_types = match r.below(4) {
                    0 => 1 << crate::world::FRAME_DISC_ACK,
                    1 => 1 << crate::world::FRAME_DISC,
                    2 => (1 << crate::world::FRAME_DISC) | (1 << crate::world::FRAME_DISC_ACK),
                    _ => 0,
                };
                rule.drop_types_p = 1.0;
                plan.push(t_call.min(t_other).saturating_sub(900), 2, Op::Link { from: Some(from), to: Some(to), rule });
            }
        }
    }
    plan.push(t_call + r.range(1_000_000, 9_000_000), 2, Op::Link { from: None, to: None, rule: clean_rule(latency) });
    let horizon = t_call + 60_000_000;
    plan.push(r.below(20_000), r.u32() | 1, Op::StepEvery { ep: c, period_us: r.range(5_000, 100_000), until_us: horizon });
    plan.push(r.below(20_000), r.u32() | 1, Op::StepEvery { ep: 0, period_us: r.range(5_000, 100_000), until_us: horizon });
    plan.params.insert("peer_stays_reachable".into(), 1.0);
    plan.end_us = horizon;
    plan.sort();
    plan
}

pub fn world_b_disconnect(property: &str, scenario: &str, seed: u64, run: u64, thorough: bool) -> Plan {
    if run % 7 == 3 {
        return world_b_disconnect_reachable(property, scenario, seed, run, false);
    }
    if run >= 8000 && run % 2 == 0 {
        return world_b_disconnect_reachable(property, scenario, seed, run, true);
    }
    let mut r = Rng::keyed(&[seed, crate::rng::str_key(property), crate::rng::str_key(scenario), run]);
    let mut plan = Plan::new(property, scenario, seed, run);
    plan.fate_seed = Some(key(&[seed, run, 0xfa7e]));
    let n_clients = r.range(1, 2) as usize;
    let mut scfg = sample_cfg(&mut r);
    scfg.active_timeout_ms = *r.pick(&[2000u64, 5000, 10_000, 20_000]);
    scfg.max_packet_size = scfg.max_packet_size.min(20_000);
    let base_server = scfg.clone();
    let topo = topology(&mut plan, &mut r, n_clients, 0, scfg, 64, 32, |r, _| {
        let mut c = sample_cfg(r);
        c.active_timeout_ms = *r.pick(&[2000u64, 5000, 10_000, 20_000]);
        let mut s = base_server.clone();
        make_compatible(&mut c, &mut s);
        c.max_packet_size = c.max_packet_size.min(base_server.max_receive_alloc).min(20_000);
        c.max_receive_alloc = c.max_receive_alloc.max(base_server.max_packet_size);
        c
    });
    for e in plan.endpoints.iter_mut() {
        e.clock_ppm = 1_000_000;
    }
    plan.push(0, 0, Op::Create { ep: 0 });
    let latency = sample_latency(&mut r).min(100_000);
    // connect on a clean link, then faults
    plan.push(0, 2, Op::Link { from: None, to: None, rule: clean_rule(latency) });
    let t_fault = r.range(500_000, 2_000_000);
    let mut rule = faulty_rule(&mut r, latency, true);
    rule.drop_p = rule.drop_p.min(0.2);
    if r.chance(0.5) {
        rule.drop_types = *r.pick(&[0b110000u32, 0b010000, 0b100000, 1 << 12, 1 << 10]);
        rule.drop_types_p = *r.pick(&[0.3, 0.6, 0.9]);
    }
    plan.push(t_fault, 2, Op::Link { from: None, to: None, rule });
    let t_call = r.range(2_000_000, if thorough { 20_000_000 } else { 10_000_000 });
    let horizon = t_call + 90_000_000;
    let mut tag = 0u32;
    let period = r.range(5_000, 100_000);
    for &c in topo.clients.iter() {
        plan.push(r.below(100_000), 1, Op::Create { ep: c });
        let caller_is_client = r.chance(0.5);
        let (caller, caller_to, other, other_to) = if caller_is_client { (c, None, 0usize, Some(c)) } else { (0usize, Some(c), c, None) };
        // queued data at the time of the call: 0..200 packets of mixed modes
        let n = *r.pick(&[0u64, 1, 5, 30, 200]);
        for _ in 0..n {
            let t = if r.chance(0.5) { t_call - r.below(200_000) } else { r.range(1_000_000, t_call) };
            plan.push(t, 0x4000_0000 + tag, Op::Send { ep: caller, to: caller_to, ch: r.below(4) as u8, mode: r.below(4) as u8, len: r.range(12, 4000) as u32, tag });
            tag += 1;
        }
        // sometimes the last things queued are Reliable packets without payload (they add
        // nothing to the send buffer's byte count)
        if r.chance(0.3) {
            for _ in 0..r.range(1, 4) {
                let span = if r.chance(0.5) { 1 } else { 150_000 };
                let t = t_call - r.below(span);
                plan.push(t, 0x4000_0000 + tag, Op::Send { ep: caller, to: caller_to, ch: 9, mode: MODE_RELIABLE, len: 0, tag });
                tag += 1;
            }
        }
        for _ in 0..r.range(0, 20) {
            let t = r.range(1_000_000, t_call + 5_000_000);
            plan.push(t, 0x4000_0000 + tag, Op::Send { ep: other, to: other_to, ch: r.below(4) as u8, mode: r.below(4) as u8, len: r.range(12, 2000) as u32, tag });
            tag += 1;
        }
        {
            // one run in six: shortly before the call the caller queues, in one go, 128-400
            // Reliable packets of 0-3 bytes on one channel - data frames that are full by their
            // number of datagrams (127) long before they are full by size (generator of its own)
            let mut r2 = Rng::keyed(&[seed, run, 0xc09_7171, c as u64]);
            if r2.chance(0.17) {
                let t = t_call - 1 - r2.below(300_000);
                for _ in 0..r2.range(128, 400) {
                    plan.push(t, 0x4000_0000 + tag, Op::Send { ep: caller, to: caller_to, ch: 9, mode: MODE_RELIABLE, len: r2.below(4) as u32, tag });
                    tag += 1;
                }
            }
        }
        if r.chance(0.7) {
            plan.push(t_call, 0x6000_0000, Op::Disconnect { ep: caller, to: caller_to });
        } else {
            plan.push(t_call, 0x6000_0000, Op::DisconnectNow { ep: caller, to: caller_to });
        }
        if r.chance(0.15) {
            // crossing disconnects: no flush claim then
            plan.push(t_call + r.below(2_000_000), 0x6000_0001, Op::Disconnect { ep: other, to: other_to });
        }
        if r.chance(0.15) {
            // the caller changes its mind: a second call of the other kind while the first is
            // still being carried out
            let t2 = t_call + r.range(1_000, 3_000_000);
            plan.push(t2, 0x6000_0002, if r.chance(0.7) { Op::DisconnectNow { ep: caller, to: caller_to } } else { Op::Disconnect { ep: caller, to: caller_to } });
        }
        plan.push(r.below(period), r.u32() | 1, Op::StepEvery { ep: c, period_us: period, until_us: horizon });
    }
    plan.push(r.below(period), r.u32() | 1, Op::StepEvery { ep: 0, period_us: r.range(5_000, 100_000), until_us: horizon });
    // what happens after the call: nothing special, total blackout (maybe healing), or clean
    match r.below(4) {
        0 => {
            let t_b = t_call + r.below(3_000_000);
            let mut b = clean_rule(latency);
            b.blackout = true;
            plan.push(t_b, 2, Op::Link { from: None, to: None, rule: b });
            if r.chance(0.5) {
                plan.push(t_b + r.range(1_000_000, 30_000_000), 2, Op::Link { from: None, to: None, rule: clean_rule(latency) });
            }
        }
        1 => {
            // one direction only
            let mut b = clean_rule(latency);
            b.blackout = true;
            let c = topo.clients[0];
            if r.chance(0.5) {
                plan.push(t_call + r.below(3_000_000), 2, Op::Link { from: Some(c), to: Some(0), rule: b });
            } else {
                plan.push(t_call + r.below(3_000_000), 2, Op::Link { from: Some(0), to: Some(c), rule: b });
            }
        }
        2 => plan.push(t_call + r.below(1_000_000), 2, Op::Link { from: None, to: None, rule: clean_rule(latency) }),
        _ => (),
    }
    // failing send calls on the caller's socket while it repeats its request
    if r.chance(0.15) {
        let (caller, _) = if plan.timeline.iter().any(|t| matches!(&t.op, Op::Disconnect { ep: 0, .. } | Op::DisconnectNow { ep: 0, .. })) { (0usize, 0) } else { (topo.clients[0], 0) };
        for _ in 0..r.range(1, 4) {
            plan.push(t_call + r.range(0, 20_000_000), r.u32() | 1, Op::SockErr { ep: caller, recv: 0, send: r.range(1, 12) as u32 });
        }
    }
    plan.params.insert("short_ch".into(), 63.0);
    plan.params.insert("fair_after_heal".into(), 0.0);
    small_windows_b(&mut plan, seed, run, 0.3);
    plan.end_us = horizon;
    plan.sort();
    plan
}

/// C10 (a): silence timeouts with lost handshake legs, blackouts, skewed and jumping clocks.
pub fn world_b_silence(property: &str, scenario: &str, seed: u64, run: u64, thorough: bool) -> Plan {
    let mut r = Rng::keyed(&[seed, crate::rng::str_key(property), crate::rng::str_key(scenario), run]);
    let mut plan = Plan::new(property, scenario, seed, run);
    plan.fate_seed = Some(key(&[seed, run, 0xfa7e]));
    let n_clients = r.range(1, 2) as usize;
    let timeouts = [200u64, 500, 1000, 3000, 8000, 20_000, 60_000];
    let mut scfg = EndpointCfg::default();
    scfg.active_timeout_ms = *r.pick(&timeouts);
    scfg.keepalive = r.chance(0.6);
    scfg.keepalive_interval_ms = r.log_range(100, 30_000);
    let topo = topology(&mut plan, &mut r, n_clients, 0, scfg, 64, 32, |r, _| {
        let mut c = EndpointCfg::default();
        c.active_timeout_ms = *r.pick(&[200u64, 500, 1000, 3000, 8000, 20_000, 60_000]);
        c.keepalive = r.chance(0.6);
        c.keepalive_interval_ms = r.log_range(100, 30_000);
        c
    });
    plan.push(0, 0, Op::Create { ep: 0 });
    let latency = sample_latency(&mut r).min(100_000);
    if run >= 3000 && run % 2 == 1 {
        // (runs added later) a network that duplicates: copies arrive up to 3 s after the
        // original, often as the last thing heard from a peer that has nothing more to say
        let mut rd = Rng::keyed(&[seed, run, 0xd0b1e]);
        let mut rule = clean_rule(latency);
        rule.dup_p = *rd.pick(&[0.2, 0.5, 1.0]);
        plan.push(0, 2, Op::Link { from: None, to: None, rule });
    } else {
        plan.push(0, 2, Op::Link { from: None, to: None, rule: clean_rule(latency) });
    }
    let horizon = r.range(30, if thorough { 120 } else { 70 }) * 1_000_000;
    // swept: the handshake loses its first k SYNs (even runs) or SYN-ACKs (odd runs), k = 0..10
    let k = (run / 2) % 11;
    let mut tag = 0u32;
    for &c in topo.clients.iter() {
        let t_create = r.below(1_000_000);
        plan.push(t_create, 1, Op::Create { ep: c });
        let (link, _what) = if run % 2 == 0 { (format!("{}>{}", c, 0), "syn") } else { (format!("{}>{}", 0, c), "synack") };
        let m = plan.fates.entry(link).or_default();
        for ord in 0..k {
            m.insert(ord, Fate::dropped());
        }
        // busy or idle connection
        if r.chance(0.5) {
            for _ in 0..r.range(1, 100) {
                let t = r.range(t_create, horizon);
                let (ep, to) = if r.chance(0.5) { (c, None) } else { (0, Some(c)) };
                plan.push(t, 0x4000_0000 + tag, Op::Send { ep, to, ch: 0, mode: r.below(4) as u8, len: r.range(12, 1500) as u32, tag });
                tag += 1;
            }
        }
        let cad = Cadence { period_us: *r.pick(&[1_000u64, 10_000, 30_000, 100_000, 400_000]), jitter: r.f64(), stall_p: if r.chance(0.3) { 0.005 } else { 0.0 }, stall_max_us: 5_000_000, flush_after_step_p: 0.1 };
        cad.steps(&mut r, &mut plan, c, t_create, horizon, 20_000, true);
        if r.chance(0.3) {
            for _ in 0..r.range(1, 4) {
                plan.push(r.range(t_create, horizon), r.u32() | 1, Op::ClockJump { ep: c, us: r.log_range(100_000, 5_000_000) });
            }
        }
    }
    let cad = Cadence { period_us: *r.pick(&[1_000u64, 10_000, 30_000, 100_000, 400_000]), jitter: r.f64(), stall_p: if r.chance(0.3) { 0.005 } else { 0.0 }, stall_max_us: 5_000_000, flush_after_step_p: 0.1 };
    cad.steps(&mut r, &mut plan, 0, 0, horizon, 30_000, true);
    if r.chance(0.3) {
        plan.push(r.range(0, horizon), r.u32() | 1, Op::ClockJump { ep: 0, us: r.log_range(100_000, 5_000_000) });
    }
    // a trickle of datagrams that are no frames at all (noise, corrupted copies) reaches one of
    // the endpoints, several per step: they are skipped, the frames queued behind them are read
    if r.chance(0.3) && cad.period_us >= 10_000 {
        let victim = if r.chance(0.7) { 0 } else { topo.clients[0] };
        let from = if victim == 0 { topo.clients[0] } else { 0 };
        let t0 = r.range(1_000_000, horizon / 2);
        let t1 = (t0 + r.range(5_000_000, 40_000_000)).min(horizon);
        let gap = (cad.period_us / r.range(2, 5)).max(2_000);
        let mut t = t0;
        let mut n = 0;
        while t < t1 && n < 20_000 {
            let len = r.range(1, 40) as usize;
            let bytes: Vec<u8> = (0..len).map(|_| r.below(256) as u8).collect();
            plan.push(t, 0x8000_0002, Op::Inject { to: victim, from, bytes, twin: false });
            t += gap;
            n += 1;
        }
    }
    // blackouts (one or both directions) around the timeout length
    let mut t = r.range(2_000_000, 30_000_000);
    for _ in 0..r.range(0, 3) {
        let len = r.log_range(100_000, 70_000_000);
        let mut b = clean_rule(latency);
        b.blackout = true;
        let c = topo.clients[0];
        let (from, to) = match r.below(3) {
            0 => (None, None),
            1 => (Some(c), Some(0usize)),
            _ => (Some(0usize), Some(c)),
        };
        plan.push(t, 2, Op::Link { from, to, rule: b });
        plan.push(t + len, 2, Op::Link { from, to, rule: clean_rule(latency) });
        // sometimes an application asks for a graceful disconnect, with reliable data still to be
        // flushed, just as the silence begins: the silence timer keeps running
        if r.chance(0.25) {
            let who = if r.chance(0.6) { (c, None, 0usize) } else { (0usize, Some(c), c) };
            let tag = 700_000 + (t / 1000) as u32;
            plan.push(t + 1000, 0x4000_0000 + tag, Op::Send { ep: who.0, to: who.1, ch: 0, mode: MODE_RELIABLE, len: r.range(12, 3000) as u32, tag });
            plan.push(t + 1001, 0x6000_0004, Op::Disconnect { ep: who.0, to: who.1 });
        }
        t += len + r.range(1_000_000, 20_000_000);
        if t >= horizon {
            break;
        }
    }
    if run >= 4000 && run % 2 == 0 {
        // (runs added later) the server application stalls for a little longer than its silence
        // timeout while its first client, which has nothing to say, keeps sending keepalives;
        // at the beginning of the stall 300-700 datagrams that are no frames at all (and bear
        // that client's address) pile up in the server's socket, so that the client's frames
        // queue up behind them. The step after the stall finds all of it in the socket: the
        // peer was not silent
        let mut rs = Rng::keyed(&[seed, run, 0x57a1_1]);
        let c = topo.clients[0];
        let to = *rs.pick(&[3000u64, 8000, 20_000]);
        if let EndpointKind::Server { cfg, .. } = &mut plan.endpoints[0].kind {
            cfg.active_timeout_ms = to;
        }
        if let EndpointKind::Client { cfg, .. } = &mut plan.endpoints[c].kind {
            cfg.active_timeout_ms = 60_000;
            cfg.keepalive = true;
            cfg.keepalive_interval_ms = rs.range(100, to / 3);
        }
        let t_s = rs.range(8_000_000, 25_000_000);
        let len = to * 1000 + rs.range(100_000, 2_000_000);
        plan.timeline.retain(|t| !(t.t_us >= t_s && t.t_us <= t_s + len && matches!(&t.op, Op::Step { ep: 0 } | Op::Flush { ep: 0 } | Op::Link { .. } | Op::ClockJump { .. })));
        plan.timeline.retain(|t| !(t.t_us >= t_s.saturating_sub(3_000_000) && t.t_us <= t_s + len && matches!(&t.op, Op::Send { .. } | Op::Disconnect { .. } | Op::DisconnectNow { .. })));
        let n = rs.range(300, 700);
        for k in 0..n {
            let len_b = rs.range(1, 40) as usize;
            let bytes: Vec<u8> = (0..len_b).map(|_| rs.below(256) as u8).collect();
            plan.push(t_s + 1000 + k * (len / 10) / n, 0x8000_0002, Op::Inject { to: 0, from: c, bytes, twin: false });
        }
        plan.push(t_s + len + 1, r.u32() | 1, Op::Step { ep: 0 });
    }
    plan.end_us = horizon;
    plan.sort();
    plan
}

/// C10 (b): idle connection with keepalive on a loss-free network for hours.
pub fn world_b_idle(property: &str, scenario: &str, seed: u64, run: u64, thorough: bool) -> Plan {
    let mut r = Rng::keyed(&[seed, crate::rng::str_key(property), crate::rng::str_key(scenario), run]);
    let mut plan = Plan::new(property, scenario, seed, run);
    plan.fate_seed = Some(key(&[seed, run, 0xfa7e]));
    let latency = r.range(100, 100_000);
    let period_c = r.range(10_000, 200_000);
    let period_s = r.range(10_000, 200_000);
    let interval = r.log_range(100, 30_000);
    // the documented floor on keepalive spacing: max(interval, 2 s, RTO) - RTO is 600 ms while no
    // data has been sent - plus a round trip and two step periods must fit inside the timeout
    let spacing = interval.max(2000) + 2 * latency / 1000 + 2 * (period_c.max(period_s) / 1000);
    let timeout = (spacing as f64 * (1.25 + r.f64() * 3.0)) as u64 + 50;
    let mut cfg = EndpointCfg::default();
    cfg.keepalive = true;
    cfg.keepalive_interval_ms = interval;
    cfg.active_timeout_ms = timeout;
    let mut cc = cfg.clone();
    // in two runs of five only one side keeps the connection alive: the other side's keepalive is
    // off (it still answers every keepalive frame, which is what the first side listens for)
    match r.below(5) {
        0 => cc.keepalive = false,
        1 => cfg.keepalive = false,
        _ => (),
    }
    let topo = topology(&mut plan, &mut r, 1, 0, cfg, 64, 32, move |_, _| cc.clone());
    for e in plan.endpoints.iter_mut() {
        e.clock_ppm = 1_000_000;
    }
    plan.push(0, 0, Op::Create { ep: 0 });
    plan.push(0, 2, Op::Link { from: None, to: None, rule: clean_rule(latency) });
    let c = topo.clients[0];
    plan.push(1000, 1, Op::Create { ep: c });
    // a third of the runs: the connection that idles is the second one from this address - the
    // first was closed by the client, the server application dropped the lingering entry, and
    // the client came back at once (nothing of the first life may touch the second)
    if r.chance(0.33) {
        let t_disc = r.range(1_000_000, 3_000_000);
        plan.push(t_disc, 4, Op::Disconnect { ep: c, to: None });
        let t_drop = t_disc + r.range(300_000, 2_000_000);
        // ... or the server application leaves the closed entry alone: the address's SYNs are
        // ignored until the 20 s linger is over (the handshake's 22 s retry budget covers that),
        // and the second life begins with the first one's entry only just expired
        let drop_entry = r.chance(0.5);
        if drop_entry {
            plan.push(t_drop, 4, Op::ServerDrop { ep: 0, to: c });
        }
        let t_back = t_drop + r.range(if drop_entry { 200_000 } else { 1_500_000 }, 5_000_000);
        plan.push(t_back, 1, Op::Destroy { ep: c });
        plan.push(t_back + 1000, 1, Op::Create { ep: c });
    }
    let hours = r.range(1, if thorough { 6 } else { 2 });
    let horizon = hours * 3_600_000_000;
    plan.push(2000, 3, Op::StepEvery { ep: c, period_us: period_c, until_us: horizon });
    plan.push(2500, 3, Op::StepEvery { ep: 0, period_us: period_s, until_us: horizon });
    // sparse chatter in both directions for a while in some runs (small Unreliable packets once
    // or twice a second: both rate controllers see tiny receive rates), then silence
    if r.chance(0.3) {
        let t0 = 8_000_000u64;
        let secs = r.range(10, 30);
        let gap = r.range(400_000, 1_100_000);
        let len = r.range(12, 40) as u32;
        let mut tag = 500u32;
        let mut t = t0;
        while t < t0 + secs * 1_000_000 {
            plan.push(t, 0x4000_0000 + tag, Op::Send { ep: c, to: None, ch: 0, mode: MODE_UNRELIABLE, len, tag });
            plan.push(t + 1, 0x4000_0000 + tag + 1, Op::Send { ep: 0, to: Some(c), ch: 0, mode: MODE_UNRELIABLE, len, tag: tag + 1 });
            tag += 2;
            t += gap;
        }
    }
    // a little traffic at the very beginning in some runs, then silence
    if r.chance(0.5) {
        for tag in 0..r.range(1, 10) as u32 {
            plan.push(r.range(500_000, 5_000_000), 0x4000_0000 + tag, Op::Send { ep: c, to: None, ch: 0, mode: MODE_RELIABLE, len: 100, tag });
        }
    }
    plan.params.insert("expect_no_timeout".into(), 1.0);
    plan.end_us = horizon;
    plan.sort();
    plan
}

/// C02 (c): one side streams Reliable packets, the other only acknowledges - and may have its
/// keepalive switched off - for several times the silence timeout on a loss-free link. Nothing
/// may end the connection (every data frame is answered well inside the timeout), so every packet
/// has to arrive.
pub fn world_b_one_way(property: &str, scenario: &str, seed: u64, run: u64, thorough: bool) -> Plan {
    let mut r = Rng::keyed(&[seed, crate::rng::str_key(property), crate::rng::str_key(scenario), run]);
    let mut plan = Plan::new(property, scenario, seed, run);
    plan.fate_seed = Some(key(&[seed, run, 0xfa7e]));
    let latency = r.log_range(100, 100_000);
    let timeout = r.log_range(1_500, 25_000);
    let client_streams = r.chance(0.6);
    let mut scfg = EndpointCfg::default();
    let mut ccfg = EndpointCfg::default();
    scfg.active_timeout_ms = timeout;
    ccfg.active_timeout_ms = if r.chance(0.7) { timeout } else { r.log_range(1_500, 25_000) };
    let quiet = if client_streams { &mut scfg } else { &mut ccfg };
    match r.below(3) {
        0 => quiet.keepalive = false,
        1 => quiet.keepalive_interval_ms = 2 * timeout + r.range(0, 60_000),
        _ => quiet.keepalive_interval_ms = r.log_range(100, 30_000),
    }
    let loud = if client_streams { &mut ccfg } else { &mut scfg };
    loud.keepalive = r.chance(0.5);
    loud.keepalive_interval_ms = r.log_range(100, 30_000);
    // an idle gap in the middle of the stream, longer than the silence timeouts: one side (either)
    // has its keepalive on with an interval that fits four times into the shorter timeout, so the
    // connection has to survive the gap and deliver what is sent after it (drawn from a generator
    // of its own)
    let mut r2 = Rng::keyed(&[seed, run, 0x1d1e_9a9]);
    let min_cfg_to = scfg.active_timeout_ms.min(ccfg.active_timeout_ms);
    let idle_gap_us = if r2.chance(0.35) && min_cfg_to >= 8_000 { min_cfg_to * 100 * r2.range(12, 30) } else { 0 };
    if idle_gap_us > 0 {
        let side = if r2.chance(0.5) { &mut ccfg } else { &mut scfg };
        side.keepalive = true;
        side.keepalive_interval_ms = r2.log_range(100, min_cfg_to / 4);
    }
    let mut stall_us = 0;
    if idle_gap_us == 0 && r2.chance(0.25) {
        let t_short = r2.log_range(1_500, 8_000);
        let (q, l) = if client_streams { (&mut scfg, &mut ccfg) } else { (&mut ccfg, &mut scfg) };
        l.active_timeout_ms = t_short;
        q.active_timeout_ms = 3 * t_short;
        q.keepalive = true;
        q.keepalive_interval_ms = r2.log_range(100, t_short / 4);
        stall_us = t_short * r2.range(1200, 1700);
    }
    let cc = ccfg.clone();
    let topo = topology(&mut plan, &mut r, 1, 0, scfg, 64, 32, move |_, _| cc.clone());
    let c = topo.clients[0];
    plan.push(0, 0, Op::Create { ep: 0 });
    let mut rule = clean_rule(latency);
    if property == "C05" {
        // the ideal network: nothing lost, nothing duplicated, order preserved
        rule.fifo = true;
        if r.chance(0.3) {
            rule.jitter_us = r.below(latency + 1);
        }
    } else {
        if r.chance(0.5) {
            rule.jitter_us = r.below(latency + 1);
        }
        if r.chance(0.3) {
            rule.dup_p = 0.05;
        }
    }
    plan.push(0, 2, Op::Link { from: None, to: None, rule });
    plan.push(0, 3, Op::Mark { name: "heal".into() });
    plan.push(1000, 1, Op::Create { ep: c });
    let min_to = timeout.min(match &plan.endpoints[c].kind { EndpointKind::Client { cfg, .. } => cfg.active_timeout_ms, _ => timeout });
    let t0 = 1_000_000;
    let stream_us = min_to * 1000 * r.range(2, if thorough { 8 } else { 4 }) + r.range(0, 2_000_000);
    let horizon = t0 + stream_us + idle_gap_us + 30_000_000;
    let t_gap = t0 + r2.below(stream_us);
    plan.push(2000, 3, Op::StepEvery { ep: c, period_us: r.range(2_000, 100_000), until_us: horizon });
    plan.push(2500, 3, Op::StepEvery { ep: 0, period_us: r.range(2_000, 100_000), until_us: horizon });
    let (from, to) = if client_streams { (c, None) } else { (0, Some(c)) };
    let max_gap = (min_to * 1000 / 3).max(60_000);
    let busy = r.chance(0.5);
    let mut t = t0;
    let mut tag = 0u32;
    let mut gap_done = idle_gap_us == 0;
    while t < t0 + stream_us + (idle_gap_us - if gap_done { 0 } else { idle_gap_us }) && tag < 4000 {
        if !gap_done && t >= t_gap {
            gap_done = true;
            t += idle_gap_us;
        }
        let len = if r.chance(0.1) { r.range(1500, 4000) } else { r.range(12, 600) } as u32;
        let mode = if property == "C05" { *r.pick(&[MODE_RELIABLE, MODE_UNRELIABLE, MODE_PERSISTENT]) } else { MODE_RELIABLE };
        plan.push(t, 0x4000_0000 + tag, Op::Send { ep: from, to, ch: (tag % 3) as u8, mode, len, tag });
        tag += 1;
        t += if busy { r.log_range(3_000, max_gap.min(80_000)) } else { r.log_range(50_000, max_gap) };
    }
    // the streaming application is held up once for longer than its own silence timeout (but
    // well inside its peer's, which is three times as long in these runs) while its peer's
    // keepalive frames go on arriving: they lie in its socket when it takes its next turn, so its
    // peer has not been silent and the connection goes on
    if stall_us > 0 {
        let quiet_ep = if client_streams { c } else { 0 };
        let t_stall = t0 + r2.below(stream_us.max(1));
        for t in plan.timeline.iter_mut() {
            if let Op::StepEvery { ep, until_us, .. } = &mut t.op {
                if *ep == quiet_ep {
                    *until_us = t_stall;
                }
            }
        }
        plan.push(t_stall + stall_us, 3, Op::StepEvery { ep: quiet_ep, period_us: r2.range(2_000, 100_000), until_us: horizon });
    }
    plan.params.insert("expect_live".into(), 1.0);
    plan.params.insert("connection_must_last".into(), 1.0);
    plan.params.insert("end_when_quiescent".into(), 1.0);
    plan.end_us = horizon;
    plan.sort();
    plan
}

/// C10 (c): retry budgets of unanswered handshakes and disconnects.
pub fn world_b_retry(property: &str, scenario: &str, seed: u64, run: u64, _thorough: bool) -> Plan {
    let mut r = Rng::keyed(&[seed, crate::rng::str_key(property), crate::rng::str_key(scenario), run]);
    let mut plan = Plan::new(property, scenario, seed, run);
    plan.fate_seed = Some(key(&[seed, run, 0xfa7e]));
    let mut cfg = EndpointCfg::default();
    cfg.active_timeout_ms = 60_000;
    let cc = cfg.clone();
    let topo = topology(&mut plan, &mut r, 2, 0, cfg, 64, 32, move |_, _| cc.clone());
    let c = topo.clients[0];
    let latency = r.range(100, 50_000);
    plan.push(0, 2, Op::Link { from: None, to: None, rule: clean_rule(latency) });
    let period_c = *r.pick(&[1_000u64, 10_000, 50_000, 200_000, 700_000]);
    let period_s = *r.pick(&[1_000u64, 10_000, 50_000, 200_000]);
    let horizon = 80_000_000;
    plan.params.insert("check_retry_budgets".into(), 1.0);
    // another client of the same server has just closed its connection (the server keeps the
    // closed entry for 20 s): its timers must not get in the way of this client's
    let other = topo.clients[1];
    let with_other = run % 3 != 0 && r.chance(0.5);
    let shift = if with_other { 3_000_000 } else { 0 };
    if with_other {
        plan.push(500, 1, Op::Create { ep: other });
        plan.push(600, 3, Op::StepEvery { ep: other, period_us: 20_000, until_us: horizon });
        plan.push(r.range(1_500_000, 2_500_000), 0x6000_0002, Op::DisconnectNow { ep: other, to: None });
    }
    match run % 3 {
        0 => {
            // nobody answers: the server does not exist, or nothing gets through
            if r.chance(0.5) {
                plan.push(0, 0, Op::Create { ep: 0 });
                let mut b = clean_rule(latency);
                b.blackout = true;
                plan.push(0, 3, Op::Link { from: None, to: None, rule: b });
                plan.push(100, 3, Op::StepEvery { ep: 0, period_us: period_s, until_us: horizon });
            }
            plan.push(r.below(1_000_000), 1, Op::Create { ep: c });
            plan.params.insert(format!("unanswered_ep{}", c), 1.0);
        }
        1 => {
            // the server answers but its SYN-ACKs never arrive
            plan.push(0, 0, Op::Create { ep: 0 });
            let mut b = clean_rule(latency);
            b.blackout = true;
            plan.push(0, 3, Op::Link { from: Some(0), to: Some(c), rule: b });
            plan.push(100, 3, Op::StepEvery { ep: 0, period_us: period_s, until_us: horizon });
            plan.push(shift + r.below(1_000_000), 1, Op::Create { ep: c });
            plan.params.insert(format!("unanswered_ep{}", c), 1.0);
        }
        _ => {
            // established, then blackout, then disconnect into the void
            plan.push(0, 0, Op::Create { ep: 0 });
            plan.push(100, 3, Op::StepEvery { ep: 0, period_us: period_s, until_us: horizon });
            plan.push(shift + 1000, 1, Op::Create { ep: c });
            // the handshake itself may have needed k retries (the first k SYNs or SYN-ACKs are
            // lost): the later disconnect has its own, full budget
            let k = if r.chance(0.5) { r.range(1, 7) } else { 0 };
            if k > 0 {
                let link = if r.chance(0.5) { format!("{}>{}", c, 0) } else { format!("{}>{}", 0, c) };
                let m = plan.fates.entry(link).or_default();
                for ord in 0..k {
                    m.insert(ord, Fate::dropped());
                }
            }
            // sometimes very early: less than 2 s after the SYN, while handshake timers are still queued
            let t_b = shift + k * 2_000_000 + if r.chance(0.4) { r.range(200_000, 1_500_000) } else { r.range(2_000_000, 6_000_000) };
            let mut b = clean_rule(latency);
            b.blackout = true;
            // sometimes the outage is one-way: nothing of the caller reaches its peer, while the
            // peer - which goes on sending data - is still heard (drawn from a generator of its own)
            let mut r3 = Rng::keyed(&[seed, run, 0x1_3a7]);
            let one_way = r3.chance(0.4);
            let caller_is_client = r3.chance(0.5);
            if one_way {
                let (from, to) = if caller_is_client { (c, 0usize) } else { (0usize, c) };
                plan.push(t_b, 3, Op::Link { from: Some(from), to: Some(to), rule: b });
                let (peer, peer_to) = if caller_is_client { (0usize, Some(c)) } else { (c, None) };
                let mut t = t_b.saturating_sub(1_000_000);
                let mut tag = 700_000u32;
                let gap = r3.range(5_000, 150_000);
                while t < horizon && tag < 701_500 {
                    plan.push(t, 0x4000_0000 + tag, Op::Send { ep: peer, to: peer_to, ch: 0, mode: r3.below(4) as u8, len: r3.range(12, 1200) as u32, tag });
                    tag += 1;
                    t += gap;
                }
            } else {
                plan.push(t_b, 3, Op::Link { from: None, to: None, rule: b });
            }
            let mut t_call = t_b + if t_b < shift + k * 2_000_000 + 2_000_000 { r.below(300_000) } else { r.below(3_000_000) };
            // the silence timeout of either side may be shorter than the 22 s of the attempt: a
            // closing endpoint has its own budget, whatever its silence timer said before
            // (drawn from a generator of its own)
            {
                let mut r = Rng::keyed(&[seed, run, 0x7e7_b0d6]);
                if r.chance(0.6) {
                    let to_c = *r.pick(&[3000u64, 5000, 10_000, 20_000]);
                    let to_s = *r.pick(&[3000u64, 5000, 10_000, 20_000, 60_000]);
                    t_call = t_call.min(t_b + to_c.min(to_s) * 1000 / 3);
                    for (i, e) in plan.endpoints.iter_mut().enumerate() {
                        if let EndpointKind::Client { cfg, .. } | EndpointKind::Server { cfg, .. } = &mut e.kind {
                            if i == c {
                                cfg.active_timeout_ms = to_c;
                            } else if i == 0 {
                                cfg.active_timeout_ms = to_s;
                            }
                        }
                    }
                }
            }
            let client_calls = if one_way { r.chance(0.5); caller_is_client } else { r.chance(0.5) };
            if client_calls {
                plan.push(t_call, 0x6000_0000, Op::DisconnectNow { ep: c, to: None });
            } else {
                plan.push(t_call, 0x6000_0000, Op::DisconnectNow { ep: 0, to: Some(c) });
            }
        }
    }
    // failing send calls while the requests are being repeated: an attempt that did not leave the
    // host is an attempt all the same (the budget is counted in time)
    if r.chance(0.3) {
        for _ in 0..r.range(1, 4) {
            let ep = if run % 3 == 2 && r.chance(0.4) { 0 } else { c };
            plan.push(shift + r.range(1_000_000, 30_000_000), r.u32() | 1, Op::SockErr { ep, recv: r.below(3) as u32, send: r.range(1, 6) as u32 });
        }
    }
    plan.push(shift + 1_000_000 + r.below(period_c), 3, Op::StepEvery { ep: c, period_us: period_c, until_us: horizon });
    plan.end_us = horizon;
    plan.sort();
    plan
}
