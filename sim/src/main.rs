//! uflow-sim: deterministic simulation with fault injection for lowquark/uflow.

mod adversary;
mod alloc;
mod checks;
mod gen;
mod gen_b;
mod known;
mod minimize;
mod oracle_conn;
mod oracle_rate;
mod oracle_time;
mod oracle_transport;
mod oracle_twin;
mod oracle_wire;
mod plan;
mod rng;
mod runner;
mod states;
mod tracer;
mod watchdog;
mod world;

#[cfg(not(miri))]
#[global_allocator]
static GLOBAL: alloc::Monitor = alloc::Monitor;

pub fn verif_root() -> String {
    std::env::var("VERIF_ROOT").unwrap_or_else(|_| "/verif".to_string())
}

static mut ALARM_MSG: [u8; 256] = [0; 256];
static mut ALARM_LEN: usize = 0;
static mut ALARM_CODE: i32 = 3;

extern "C" fn on_alarm(_sig: libc::c_int) {
    unsafe {
        let ptr = std::ptr::addr_of!(ALARM_MSG) as *const libc::c_void;
        libc::write(1, ptr, ALARM_LEN);
        libc::_exit(ALARM_CODE);
    }
}

fn arm_alarm(seconds: u32, msg: &str, code: i32) {
    unsafe {
        let bytes = msg.as_bytes();
        let n = bytes.len().min(255);
        let dst = std::ptr::addr_of_mut!(ALARM_MSG) as *mut u8;
        std::ptr::copy_nonoverlapping(bytes.as_ptr(), dst, n);
        ALARM_LEN = n;
        ALARM_CODE = code;
        libc::signal(libc::SIGALRM, on_alarm as usize);
        libc::alarm(seconds);
    }
}

fn usage() -> ! {
    eprintln!("usage: uflow-sim check <ID> quick|thorough | replay <file> [--alarm N] [--expect-hang] | digests <ID> <seed> <from> <to> | gen <ID> <seed> <run> | list");
    std::process::exit(2);
}

fn main() {
    world::install_panic_hook();
    if !adversary::crc_selfcheck() {
        println!("HARNESS-ERROR the harness CRC disagrees with uflow's codec");
        std::process::exit(2);
    }
    let args: Vec<String> = std::env::args().collect();
    if args.len() < 2 {
        usage();
    }
    let seed = std::env::var("VERIF_SEED").ok().and_then(|s| s.parse::<u64>().ok()).unwrap_or(1);
    match args[1].as_str() {
        "list" => {
            for c in checks::all() {
                println!("{} {}", c.property, c.families.iter().map(|f| f.name).collect::<Vec<_>>().join(","));
            }
        }
        "check" => {
            if args.len() < 4 {
                usage();
            }
            let Some(def) = checks::by_id(&args[2]) else {
                eprintln!("unknown property {}", args[2]);
                std::process::exit(2);
            };
            let thorough = match args[3].as_str() {
                "quick" => false,
                "thorough" => true,
                _ => usage(),
            };
            let r = runner::run_check(&def, thorough, seed);
            // a hung worker thread can never be joined
            std::process::exit(r.exit_code);
        }
        "replay" => {
            if args.len() < 3 {
                usage();
            }
            let plan = match plan::Plan::load(&args[2]) {
                Ok(p) => p,
                Err(e) => {
                    println!("HARNESS-ERROR {}", e);
                    std::process::exit(2);
                }
            };
            let Some(def) = checks::by_id(&plan.property) else {
                println!("HARNESS-ERROR unknown property {}", plan.property);
                std::process::exit(2);
            };
            let Some(fam) = def.family_named(&plan.scenario) else {
                println!("HARNESS-ERROR unknown scenario {}", plan.scenario);
                std::process::exit(2);
            };
            let mut alarm = 0u32;
            let mut i = 3;
            while i < args.len() {
                if args[i] == "--alarm" && i + 1 < args.len() {
                    alarm = args[i + 1].parse().unwrap_or(0);
                    i += 1;
                }
                i += 1;
            }
            let expect_hang = plan.expect.as_ref().map_or(false, |e| e.violation.ends_with("/hang")) || args.iter().any(|a| a == "--expect-hang");
            if expect_hang && alarm == 0 {
                alarm = 20;
            }
            if alarm > 0 {
                let msg = format!("REPRODUCED: VIOLATION property={} clause=hang replay={} (a call did not return within {} s)\n", plan.property, args[2], alarm);
                arm_alarm(alarm, &msg, 1);
            }
            watchdog::register_worker(0);
            match runner::run_plan(&def, fam, &plan, false) {
                Ok(v) => {
                    let exp = plan.expect.clone();
                    match (&v.violation, exp) {
                        (Some(viol), Some(e)) => {
                            let same = e.violation == format!("{}/{}", plan.property, viol.clause) && (e.digest.is_empty() || e.digest == format!("{:016x}", v.digest));
                            if same {
                                println!("REPRODUCED: VIOLATION property={} clause={} at_call={} digest={:016x}: {}", plan.property, viol.clause, viol.at_call, v.digest, viol.detail);
                                std::process::exit(1);
                            } else {
                                println!("DIFFERENT: expected {} digest {} but got {}/{} digest {:016x}: {}", e.violation, e.digest, plan.property, viol.clause, v.digest, viol.detail);
                                std::process::exit(if e.violation.ends_with("/hang") { 1 } else { 2 });
                            }
                        }
                        (Some(viol), None) => {
                            println!("VIOLATION property={} clause={} at_call={} digest={:016x}: {}", plan.property, viol.clause, viol.at_call, v.digest, viol.detail);
                            std::process::exit(1);
                        }
                        (None, Some(e)) => {
                            println!("NOT-REPRODUCED: plan expects {} but the property held (digest {:016x})", e.violation, v.digest);
                            std::process::exit(0);
                        }
                        (None, None) => {
                            println!("OK: property {} held (digest {:016x})", plan.property, v.digest);
                            std::process::exit(0);
                        }
                    }
                }
                Err(e) => {
                    println!("HARNESS-ERROR {}", e);
                    std::process::exit(2);
                }
            }
        }
        "confirm-hang" => {
            // confirm-hang <prop> <family> <seed> <run> <call> <tier> <path>
            if args.len() < 9 {
                usage();
            }
            let def = checks::by_id(&args[2]).expect("property");
            let fam = def.family_named(&args[3]).expect("family");
            let seed: u64 = args[4].parse().unwrap();
            let run: u64 = args[5].parse().unwrap();
            let call: u64 = args[6].parse().unwrap();
            let thorough = args[7] == "thorough";
            let path = args[8].clone();
            let mut plan = (fam.gen)(seed, run, thorough);
            plan.expect = Some(plan::Expect { violation: format!("{}/hang", def.property), at_call: call, digest: String::new() });
            let mut oracles = (fam.oracles)(&plan);
            let adv = runner::mk_adversary(fam, &plan);
            arm_alarm(30, "HANG-CONFIRMED\n", 3);
            watchdog::register_worker(0);
            let opts = world::ExecOpts { materialise: true, dump_before_call: Some((call, path)), ..Default::default() };
            let _ = world::execute(&plan, &mut oracles, opts, adv);
            println!("NO-HANG");
            std::process::exit(0);
        }
        "digests" => {
            if args.len() < 6 {
                usage();
            }
            let def = checks::by_id(&args[2]).expect("property");
            let s: u64 = args[3].parse().unwrap();
            let from: u64 = args[4].parse().unwrap();
            let to: u64 = args[5].parse().unwrap();
            watchdog::register_worker(0);
            for (run, d, v) in runner::digests(&def, s, from, to, false) {
                println!("{} {} {:016x} {}", def.property, run, d, v.unwrap_or_else(|| "-".into()));
            }
        }
        "trace" => {
            // trace <file> [-v]  |  trace <ID> <seed> <run> [-v]
            let verbose = args.iter().any(|a| a == "-v");
            let plan = if args[2].ends_with(".json") {
                plan::Plan::load(&args[2]).expect("plan")
            } else {
                let def = checks::by_id(&args[2]).expect("property");
                let run: u64 = args[4].parse().unwrap();
                (def.family_of(run).gen)(args[3].parse().unwrap(), run, false)
            };
            let def = checks::by_id(&plan.property).expect("property");
            let fam = def.family_named(&plan.scenario).expect("family");
            let mut oracles: Vec<Box<dyn world::Oracle>> = vec![Box::new(tracer::Tracer { verbose })];
            oracles.extend((fam.oracles)(&plan));
            watchdog::register_worker(0);
            let out = world::execute(&plan, &mut oracles, world::ExecOpts::default(), runner::mk_adversary(fam, &plan)).unwrap();
            println!("violation: {:?}\npanic: {:?}", out.violation, out.panic);
        }
        "materialise" => {
            // materialise <ID> <seed> <run> <out.json>
            let def = checks::by_id(&args[2]).expect("property");
            let run: u64 = args[4].parse().unwrap();
            let fam = def.family_of(run);
            let plan = (fam.gen)(args[3].parse().unwrap(), run, false);
            watchdog::register_worker(0);
            let v = runner::run_plan(&def, fam, &plan, true).unwrap();
            v.materialised.unwrap().save(&args[5]).unwrap();
            println!("digest {:016x} violation {:?}", v.digest, v.violation.map(|x| x.clause));
        }
        "show" => {
            let def = checks::by_id(&args[2]).expect("property");
            let s: u64 = args[3].parse().unwrap();
            let from: u64 = args[4].parse().unwrap();
            let to: u64 = args.get(5).and_then(|x| x.parse().ok()).unwrap_or(from + 1);
            watchdog::register_worker(0);
            for run in from..to {
                let fam = def.family_of(run);
                let plan = (fam.gen)(s, run, false);
                let sends = plan.timeline.iter().filter(|t| matches!(t.op, plan::Op::Send { .. })).count();
                let steps = plan.timeline.iter().filter(|t| matches!(t.op, plan::Op::Step { .. })).count();
                let t0 = std::time::Instant::now();
                let v = runner::run_plan(&def, fam, &plan, false).unwrap();
                println!("run {} fam {} sends {} steps {} end {}s | calls {} datagrams {} delivered {} tsdrop {} drop {} blackout {} sim {}s wall {:.1}ms viol {:?}",
                    run, fam.name, sends, steps, plan.end_us / 1_000_000, v.stats.calls, v.stats.datagrams, v.stats.packets_delivered,
                    v.reach.get("timesensitive_dropped_by_sender").unwrap_or(&0), v.stats.dropped, v.stats.blackout_dropped, v.stats.sim_us / 1_000_000,
                    t0.elapsed().as_secs_f64() * 1000.0, v.violation.map(|x| x.clause));
            }
        }
        "gen" => {
            if args.len() < 5 {
                usage();
            }
            let def = checks::by_id(&args[2]).expect("property");
            let s: u64 = args[3].parse().unwrap();
            let run: u64 = args[4].parse().unwrap();
            let fam = def.family_of(run);
            let plan = (fam.gen)(s, run, false);
            println!("{}", serde_json::to_string_pretty(&plan.to_json()).unwrap());
        }
        _ => usage(),
    }
}
