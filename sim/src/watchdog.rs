//! Hang supervision. A single-threaded simulation cannot interrupt an infinite loop inside a
//! uflow call, so every worker publishes (run key, call index, wall-clock start) before a call
//! and clears it afterwards; a supervisor thread declares a *suspected* hang when a call has been
//! running for longer than the limit. Suspicions are confirmed deterministically by re-running
//! the same run in a child process under an alarm (see `main.rs`).

use std::cell::Cell;
use std::sync::atomic::{AtomicU64, Ordering};
use std::time::Instant;

pub const MAX_WORKERS: usize = 64;

pub struct Slot {
    pub run_key: AtomicU64,
    pub call: AtomicU64,
    /// milliseconds since process start, 0 = not inside a call
    pub since_ms: AtomicU64,
}

#[allow(clippy::declare_interior_mutable_const)]
const EMPTY: Slot = Slot { run_key: AtomicU64::new(0), call: AtomicU64::new(0), since_ms: AtomicU64::new(0) };
pub static SLOTS: [Slot; MAX_WORKERS] = [EMPTY; MAX_WORKERS];

thread_local! {
    static WORKER: Cell<usize> = const { Cell::new(usize::MAX) };
    static GUARDED: Cell<bool> = const { Cell::new(false) };
}

static START: std::sync::OnceLock<Instant> = std::sync::OnceLock::new();

pub fn now_ms() -> u64 {
    START.get_or_init(Instant::now).elapsed().as_millis() as u64 + 1
}

pub fn current_worker() -> usize {
    WORKER.with(|w| w.get())
}

pub fn register_worker(idx: usize) {
    WORKER.with(|w| w.set(idx));
}

pub fn set_run(run_key: u64) {
    let w = WORKER.with(|w| w.get());
    if w < MAX_WORKERS {
        SLOTS[w].run_key.store(run_key, Ordering::Relaxed);
    }
}

#[inline]
pub fn enter(call: u64) {
    crate::alloc::reset_gross();
    GUARDED.with(|g| g.set(true));
    let w = WORKER.with(|w| w.get());
    if w < MAX_WORKERS {
        SLOTS[w].call.store(call, Ordering::Relaxed);
        SLOTS[w].since_ms.store(now_ms(), Ordering::Release);
    }
}

#[inline]
pub fn leave() {
    GUARDED.with(|g| g.set(false));
    let w = WORKER.with(|w| w.get());
    if w < MAX_WORKERS {
        SLOTS[w].since_ms.store(0, Ordering::Release);
    }
}

pub fn in_guarded_call_try() -> bool {
    GUARDED.try_with(|g| g.get()).unwrap_or(false)
}

pub fn in_guarded_call() -> bool {
    GUARDED.with(|g| g.get())
}

/// (worker, run_key, call, stuck_for_ms) of every call running longer than `limit_ms`.
pub fn stuck(limit_ms: u64) -> Vec<(usize, u64, u64, u64)> {
    let now = now_ms();
    let mut v = Vec::new();
    for (i, s) in SLOTS.iter().enumerate() {
        let since = s.since_ms.load(Ordering::Acquire);
        if since != 0 && now.saturating_sub(since) > limit_ms {
            v.push((i, s.run_key.load(Ordering::Relaxed), s.call.load(Ordering::Relaxed), now - since));
        }
    }
    v
}
