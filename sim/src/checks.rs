//! Check definitions: which scenario families and which oracles decide each property.

use crate::adversary::{ConnectedAttacker, Hostile, Rewriter};
use crate::gen::*;
use crate::gen_b::*;
use crate::oracle_conn::*;
use crate::oracle_rate::RfcOracle;
use crate::oracle_time::*;
use crate::oracle_transport::*;
use crate::oracle_twin::{twin_events_run, twin_run, AckForger};
use crate::oracle_wire::*;
use crate::plan::*;
use crate::rng::Rng;
use crate::runner::*;
use crate::states::StateCoverage;
use crate::world::*;

const REAL_A: &str = "HalfConnection and everything below it (packet sender/receiver, assembly window, fragment buffer, frame queue, ack queue, reorder buffer, loss intervals, TFRC rate computer, frame codec and CRC)";
const STUB_A: &str = "virtual clock (H2), seeded rand (H3); the ~40 lines of Client/Server glue around a half connection are mirrored by the harness (flush, read frames, step, receive in the order Client::step uses); the network is the simulator";
#[allow(dead_code)]
const REAL_B: &str = "Client, Server, RemoteClient, event queue, UdpFrameSink, HalfConnection and everything below it, frame codec and CRC";
#[allow(dead_code)]
const STUB_B: &str = "std::net::UdpSocket (simulated socket H4), std::time::Instant (virtual clock H2), rand (seeded H3)";

fn no_panics(_p: &PanicInfo) -> bool {
    false
}
#[allow(dead_code)]
fn all_panics(_p: &PanicInfo) -> bool {
    true
}
/// C20: an arithmetic underflow in the sender's accounting is the property's own violation.
fn overflow_in_sender(p: &PanicInfo) -> bool {
    p.message.contains("overflow") && p.file.contains("packet_sender")
}

/// C04: the library's own assertions about the size of the frame under construction (the frame
/// builder must produce exactly the size the emitter budgeted against the 1472-byte limit).
fn panics_in_frame_building(p: &PanicInfo) -> bool {
    p.file.contains("half_connection/emit.rs") || p.file.contains("frame/serial/build.rs")
        // arithmetic on fragment counts and sizes while a packet is split or put together
        || (p.message.contains("overflow") && (p.file.contains("half_connection/mod.rs") || p.file.contains("pending_packet.rs") || p.file.contains("assembly_window")))
}

/// C06: the sender's own assertion that a transfer-window slot is free when a packet is emitted
/// guards exactly "never more packets outstanding than the peer advertised".
fn panics_in_packet_sender(p: &PanicInfo) -> bool {
    p.file.contains("half_connection/packet_sender.rs")
}

/// C14: a panic inside the rate computer is the property's own violation.
fn panics_in_rate_code(p: &PanicInfo) -> bool {
    p.file.contains("send_rate") || p.file.contains("recv_rate_set") || p.file.contains("loss_rate")
}

fn with_states(mut v: Vec<Box<dyn Oracle>>) -> Vec<Box<dyn Oracle>> {
    v.push(Box::new(StateCoverage::new()));
    v
}


/// World B variant of the transport scenarios: real Client/Server, default windows, nonces near
/// wrap-around in half of the runs, a silence timeout long enough not to interfere.
fn b_transport(property: &'static str, scenario: &'static str, seed: u64, run: u64, thorough: bool, heal: bool, ideal: bool, flips: bool) -> Plan {
    let mut r = Rng::keyed(&[seed, run, crate::rng::str_key(scenario)]);
    let fault_until = r.range(5, if thorough { 40 } else { 20 }) * 1_000_000;
    let sc = BScenario {
        n_clients: r.range(1, 3) as usize,
        packets: r.range(20, if thorough { 600 } else { 200 }),
        horizon_us: if heal { fault_until + (900 + 128 * 80) * 1_000_000 } else { fault_until },
        fault_until_us: fault_until,
        heal,
        allow_flips: flips,
        near_wrap: run % 2 == 0,
        // the silence timer (C10's business) must not end the connection during blackouts
        active_timeout_ms: 1_800_000,
        ideal,
        byte_cap: if heal { 64 * 1448 } else { 0 },
    };
    let mut plan = world_b_general(property, scenario, seed, run, &sc);
    if heal {
        plan.params.insert("expect_live".into(), 1.0);
        plan.params.insert("end_when_quiescent".into(), 1.0);
    }
    plan
}

// ------------------------------------------------------------------------------------------ C01

fn c01_sc(r: &mut Rng, thorough: bool, near_wrap: bool, small: bool) -> AScenario {
    let packets = if near_wrap { r.range(200, if thorough { 6000 } else { 1500 }) } else { r.range(50, if thorough { 2000 } else { 600 }) };
    let horizon = r.range(8, if thorough { 90 } else { 40 }) * 1_000_000;
    AScenario {
        near_wrap,
        small_windows: small,
        packets,
        send_window_us: horizon / 2,
        fault_until_us: horizon,
        horizon_us: horizon,
        allow_flips: true,
        allow_stalls: true,
        phases: r.range(1, 4),
    }
}

fn c01_gen_mixed(seed: u64, run: u64, thorough: bool) -> Plan {
    let mut r = Rng::keyed(&[seed, run, 0xc01]);
    let sc = c01_sc(&mut r, thorough, false, false);
    let mut plan = world_a_general("C01", "a_mixed", seed, run, &sc, false);
    if run >= 9900 {
        // (runs added later) one or two packets of 63..257 fragments - fragment counts next to
        // multiples of 64 - early in the run, in a resend mode, with room for them at the peer
        let mut rb = Rng::keyed(&[seed, run, 0xc01b]);
        let l2 = word_boundary_lengths();
        for k in 0..rb.range(1, 2) {
            let len = *rb.pick(&l2[..10]);
            for i in 0..2 {
                if let EndpointKind::Hc { spec, .. } = &mut plan.endpoints[i].kind {
                    if i == 0 {
                        spec.tx_alloc_limit = spec.tx_alloc_limit.max(len as u64 + 4 * FRAG);
                        spec.tx_bandwidth_limit = spec.tx_bandwidth_limit.max(500_000);
                    } else {
                        spec.rx_alloc_limit = spec.rx_alloc_limit.max(len as u64 + 4 * FRAG);
                    }
                }
            }
            let t = rb.below(300_000);
            let tag = 900_000 + k as u32;
            plan.push(t, 0x4000_0000 + tag, Op::Send { ep: 0, to: None, ch: rb.below(2) as u8, mode: *rb.pick(&[MODE_RELIABLE, MODE_PERSISTENT]), len, tag });
        }
        plan.sort();
    }
    plan
}
fn c01_gen_wrap(seed: u64, run: u64, thorough: bool) -> Plan {
    let mut r = Rng::keyed(&[seed, run, 0xc01]);
    let small = r.chance(0.5);
    let sc = c01_sc(&mut r, thorough, true, small);
    world_a_general("C01", "a_wrap", seed, run, &sc, false)
}
fn c01_gen_small(seed: u64, run: u64, thorough: bool) -> Plan {
    let mut r = Rng::keyed(&[seed, run, 0xc01]);
    let sc = c01_sc(&mut r, thorough, false, true);
    world_a_general("C01", "a_small_windows", seed, run, &sc, false)
}
/// Window-edge stress: tiny windows, two or three channels, mostly Persistent and Reliable
/// packets, moderate loss: the window is full most of the time, held back by a missing Reliable
/// packet on one channel while other channels deliver and skip around it.
fn c01_gen_edge(seed: u64, run: u64, thorough: bool) -> Plan {
    let mut r = Rng::keyed(&[seed, run, 0xc01e]);
    let horizon = r.range(10, if thorough { 60 } else { 30 }) * 1_000_000;
    let sc = AScenario {
        near_wrap: run % 2 == 0,
        small_windows: true,
        packets: r.range(150, if thorough { 2000 } else { 700 }),
        send_window_us: horizon / 2,
        fault_until_us: horizon,
        horizon_us: horizon,
        allow_flips: false,
        allow_stalls: false,
        phases: 1,
    };
    let mut plan = world_a_general("C01", "a_window_edge", seed, run, &sc, false);
    let k = r.range(1, 4);
    for e in plan.endpoints.iter_mut() {
        if let EndpointKind::Hc { spec, .. } = &mut e.kind {
            spec.tx_packet_window_size = 1 << k;
            spec.rx_packet_window_size = 1 << k;
            spec.tx_frame_window_size = spec.tx_frame_window_size.max(16);
            spec.rx_frame_window_size = spec.rx_frame_window_size.max(16);
            spec.tx_bandwidth_limit = spec.tx_bandwidth_limit.max(200_000);
            spec.tx_alloc_limit = spec.tx_alloc_limit.max(100_000);
            spec.rx_alloc_limit = spec.rx_alloc_limit.max(100_000);
        }
    }
    let chans = r.range(2, 3) as u8;
    for t in plan.timeline.iter_mut() {
        match &mut t.op {
            Op::Send { ch, mode, len, .. } => {
                if *len >= 12 {
                    *ch %= chans;
                    *mode = *r.pick(&[MODE_PERSISTENT, MODE_PERSISTENT, MODE_RELIABLE, MODE_UNRELIABLE]);
                    *len = (*len).min(1400);
                }
            }
            Op::Link { rule, .. } => {
                rule.drop_p = *r.pick(&[0.1, 0.2, 0.3]);
                rule.blackout = false;
                rule.drop_types = 0;
                rule.latency_us = rule.latency_us.min(30_000);
            }
            _ => (),
        }
    }
    plan.params.insert("short_ch".into(), (plan.param("short_ch", 0.0) as u8 % chans) as f64);
    for t in plan.timeline.iter_mut() {
        if let Op::Send { ch, len, .. } = &mut t.op {
            if *len < 12 {
                *ch = plan.params["short_ch"] as u8;
            }
        }
    }
    plan
}
/// A sender whose packet window is larger than the receiver's: it runs ahead of the receive
/// window, and what arrives from beyond it has to be refused, not filed under an older packet.
fn c01_gen_mismatch(seed: u64, run: u64, thorough: bool) -> Plan {
    let mut r = Rng::keyed(&[seed, run, 0xc01f]);
    let horizon = r.range(8, if thorough { 50 } else { 25 }) * 1_000_000;
    let sc = AScenario {
        near_wrap: run % 2 == 0,
        small_windows: true,
        packets: r.range(150, if thorough { 2000 } else { 700 }),
        send_window_us: horizon / 2,
        fault_until_us: horizon,
        horizon_us: horizon,
        allow_flips: false,
        allow_stalls: false,
        phases: 1,
    };
    let mut plan = world_a_general("C01", "a_window_mismatch", seed, run, &sc, false);
    let mut rx = [0u32; 2];
    for i in 0..2 {
        let k = r.range(3, 8);
        let tx = 1u32 << k;
        rx[i] = tx >> r.range(1, 3);
        if let EndpointKind::Hc { spec, .. } = &mut plan.endpoints[i].kind {
            spec.tx_packet_window_size = tx;
            spec.tx_frame_window_size = spec.tx_frame_window_size.max(64);
            spec.rx_frame_window_size = spec.rx_frame_window_size.max(64);
            spec.tx_bandwidth_limit = spec.tx_bandwidth_limit.max(200_000);
            spec.tx_alloc_limit = spec.tx_alloc_limit.max(100_000);
            spec.rx_alloc_limit = spec.rx_alloc_limit.max(100_000);
        }
    }
    for i in 0..2 {
        if let EndpointKind::Hc { spec, .. } = &mut plan.endpoints[1 - i].kind {
            spec.rx_packet_window_size = rx[i];
        }
    }
    // equally sized packets of two or three fragments on few channels in half of the runs (a
    // fragment from beyond the window then fits the shape of the packet the slot is waiting for)
    let same = if r.chance(0.5) { Some((r.range(1, 3) * FRAG + r.range(1, FRAG - 1)) as u32) } else { None };
    let chans = r.range(1, 3) as u8;
    for t in plan.timeline.iter_mut() {
        match &mut t.op {
            Op::Send { ch, mode, len, .. } => {
                if *len >= 12 {
                    *ch %= chans;
                    *mode = *r.pick(&[MODE_UNRELIABLE, MODE_UNRELIABLE, MODE_PERSISTENT, MODE_RELIABLE]);
                    *len = same.unwrap_or((*len).min(4000));
                }
            }
            Op::Link { rule, .. } => {
                rule.drop_p = *r.pick(&[0.05, 0.1, 0.2, 0.3]);
                rule.blackout = false;
                rule.drop_types = 0;
                rule.latency_us = rule.latency_us.min(30_000);
            }
            _ => (),
        }
    }
    plan.params.insert("short_ch".into(), (plan.param("short_ch", 0.0) as u8 % chans) as f64);
    for t in plan.timeline.iter_mut() {
        if let Op::Send { ch, len, .. } = &mut t.op {
            if *len < 12 {
                *ch = plan.params["short_ch"] as u8;
            }
        }
    }
    plan
}
fn c01_gen_b(seed: u64, run: u64, thorough: bool) -> Plan {
    let mut r = Rng::keyed(&[seed, run, 0xb01]);
    let horizon = r.range(8, if thorough { 60 } else { 30 }) * 1_000_000;
    let sc = BScenario {
        n_clients: r.range(1, 3) as usize,
        packets: r.range(30, if thorough { 800 } else { 300 }),
        horizon_us: horizon,
        fault_until_us: horizon,
        heal: false,
        allow_flips: true,
        near_wrap: run % 2 == 0,
        // a connection that legitimately timed out simply ends the run's transport checks
        active_timeout_ms: 20_000,
        ideal: false,
        byte_cap: 0,
    };
    world_b_general("C01", "b_mixed", seed, run, &sc)
}
fn c01_oracles(plan: &Plan) -> Vec<Box<dyn Oracle>> {
    with_states(vec![Box::new(TransportOracle::new("C01", TransportClauses { order: true, ..Default::default() }, plan))])
}

/// One very long stream (a little more than 2^20 packets) on a clean link: copies of its first
/// frames come back when the packet ids have gone once round.
fn c01_gen_cycle(seed: u64, run: u64, _thorough: bool) -> Plan {
    let mut r = Rng::keyed(&[seed, run, 0xc01c]);
    let mut plan = Plan::new("C01", "a_id_cycle", seed, run);
    plan.fate_seed = Some(crate::rng::key(&[seed, run, 0xfa7e]));
    let mut setup = ASetup::default_like();
    setup.packet_base = [r.u32() & 0xFFFFF, r.u32() & 0xFFFFF];
    setup.frame_base = [r.u32(), r.u32()];
    for i in 0..2 {
        setup.bandwidth[i] = 400_000_000;
        setup.alloc[i] = 4_000_000;
    }
    plan.endpoints = setup.endpoints();
    plan.push(0, 0, Op::Create { ep: 0 });
    plan.push(0, 1, Op::Create { ep: 1 });
    plan.push(0, 2, Op::Link { from: None, to: None, rule: clean_rule(r.range(100, 600)) });
    let total: u32 = (1 << 20) + 8000;
    let burst = 16_384u32;
    let mut tag = 0u32;
    let mut t = 1000u64;
    while tag < total {
        let n = burst.min(total - tag);
        plan.push(t, 0x4000_0000 + tag, Op::SendBurst { ep: 0, to: None, len: *r.pick(&[12u32, 12, 13, 16]), tag, count: n });
        tag += n;
        t += 15_000;
    }
    let horizon = t + 20_000_000;
    plan.push(0, 3, Op::Mark { name: "heal".into() });
    plan.params.insert("end_when_quiescent".into(), 1.0);
    // step periods below about 1.85 ms often settle at one small frame per step, and the stream
    // does not get round the id space within the horizon (measured; section 11)
    let drawn = r.range(500, 2000);
    let period = if drawn >= 1850 { drawn } else { 1850 + drawn % 550 };
    plan.push(500, 3, Op::StepEvery { ep: 0, period_us: period, until_us: horizon });
    plan.push(700, 3, Op::StepEvery { ep: 1, period_us: period, until_us: horizon });
    plan.adversary = "cycle_replayer".into();
    plan.end_us = horizon;
    plan.sort();
    plan
}
fn c01_adv_cycle(plan: &Plan) -> Option<Box<dyn Adversary>> {
    Some(Box::new(crate::adversary::CycleReplayer::new(plan, 0, 1)))
}

pub fn c01() -> CheckDef {
    CheckDef {
        property: "C01",
        families: vec![
            Family { name: "a_id_cycle", world: "A", weight: 1, gen: c01_gen_cycle, oracles: c01_oracles, adversary: Some(c01_adv_cycle), claims: None, keep_workload: true, custom: None,
                what: "one stream of 2^20 + 8000 small packets (all modes but TimeSensitive, 4 channels) on a clean link; copies of its first 120 data frames are delivered again when the receiver's packet window has come once round the 20-bit id space (one run in 3001: three per quick tier)" },
            Family { name: "a_mixed", world: "A", weight: 800, gen: c01_gen_mixed, oracles: c01_oracles, adversary: None, claims: None, keep_workload: false, custom: None,
                what: "two half connections, both directions, all modes, up to 64 channels, drop/dup/reorder/1-4 bit flips/blackouts/type-targeted loss in phases, random cadences and stalls" },
            Family { name: "a_wrap", world: "A", weight: 600, gen: c01_gen_wrap, oracles: c01_oracles, adversary: None, claims: None, keep_workload: false, custom: None,
                what: "same, initial frame and packet ids within two windows of the 2^32 / 2^20 wrap-around and enough traffic to cross it" },
            Family { name: "a_small_windows", world: "A", weight: 600, gen: c01_gen_small, oracles: c01_oracles, adversary: None, claims: None, keep_workload: false, custom: None,
                what: "same, window sizes 1..64 so that windows fill and resynchronise constantly" },
            Family { name: "a_window_edge", world: "A", weight: 600, gen: c01_gen_edge, oracles: c01_oracles, adversary: None, claims: None, keep_workload: false, custom: None,
                what: "packet windows of 2-16, two or three channels, mostly Persistent/Reliable packets, 10-30 % loss: the window is full most of the time and channels deliver and skip around a missing Reliable packet" },
            Family { name: "a_window_mismatch", world: "A", weight: 300, gen: c01_gen_mismatch, oracles: c01_oracles, adversary: None, claims: None, keep_workload: false, custom: None,
                what: "the sender's packet window (8-256) is 2-8 times the receiver's: the sender runs ahead of the receive window under 5-30 % loss, one to three channels, in half of the runs equally sized packets of two or three fragments; what arrives from beyond the window has to be refused (HalfConnection accepts the two sizes independently; Client and Server always use 4096/4096)" },
            Family { name: "b_mixed", world: "B", weight: 400, gen: c01_gen_b, oracles: c01_oracles, adversary: None, claims: None, keep_workload: false, custom: None,
                what: "real Client/Server over the simulated socket, 1-3 clients, both directions, default windows, handshake nonces steered to within 6000 of the 2^32 / 2^20 wrap-around in half of the runs, drop/dup/reorder/flips" },
        ],
        panic_is_violation: no_panics,
        hang_is_violation: false,
        quick_runs: 10_400,
        thorough_runs: 150_000,
        rule: "one case = one simulated run (plan generated from (seed, run index); family = run index mod weights); distinct = distinct run digest (hash of every API call, wire datagram, event and probe); non-trivial = at least 10 packets delivered to an application",
        real_code: REAL_A,
        stubs: STUB_A,
        assumptions: vec![
            "sampling, not proof: a clean batch bounds the probability of defects of the sampled kinds",
            "packets shorter than 12 bytes cannot carry a tag; they travel on one designated channel per run and are matched greedily (sound, may miss a duplicate of an identical short packet)",
            "corruption beyond 4 bit flips (5-40 flipped bits, truncation) is injected in a minority of runs; a damaged copy that would still pass the 32-bit CRC (one in 2^32) is withheld by the harness, since the CRC gives no guarantee there",
        ],
    }
}

// ------------------------------------------------------------------------------------------ C02

fn c02_gen(seed: u64, run: u64, thorough: bool) -> Plan {
    let mut r = Rng::keyed(&[seed, run, 0xc02]);
    let fault_until = r.range(2, if thorough { 40 } else { 15 }) * 1_000_000;
    let near_wrap = run % 3 == 1;
    let small = run % 2 == 0;
    let sc = AScenario {
        near_wrap,
        small_windows: small,
        packets: r.range(10, 120),
        send_window_us: fault_until,
        fault_until_us: fault_until,
        // T_live = 900 s + 128 s x (64 frames of backlog + 16): the slowest a correct TFRC sender can be
        horizon_us: fault_until + (900 + 128 * 80) * 1_000_000,
        allow_flips: true,
        allow_stalls: true,
        phases: r.range(1, 4),
    };
    // every third run leans on the parent-lead patterns (a Reliable packet, then 126..300 small
    // packets of other modes behind it, on one or two channels)
    let mut plan = world_a_general_with("C02", "a_fault_then_fair", seed, run, &sc, true, &|w| {
        if run % 3 == 1 {
            w.lead_pattern_p = 0.5;
            w.tiny_burst_p = 0.2;
            w.channels = w.channels.max(2);
        }
        // the runs added later (index 3000 and up) lean on bursts of 120..300 packets of 0-3
        // bytes in a resend mode, submitted in one instant: data frames closed by the limit of
        // 127 datagrams, with the next fragment opening a new frame, under loss
        if run >= 3000 {
            w.tiny_mode = if (run / 2) % 2 == 0 { MODE_RELIABLE } else { MODE_PERSISTENT };
        }
    });
    if run >= 3000 {
        // warm-up traffic first (so that the allowed rate lets one flush emit more than one
        // frame), then the burst, then a few more packets
        let mut rb = Rng::keyed(&[seed, run, 0xc02b]);
        let short_ch = plan.param("short_ch", 0.0) as u8;
        let tiny_mode = if (run / 2) % 2 == 0 { MODE_RELIABLE } else { MODE_PERSISTENT };
        let mut tag = 800_000u32;
        let t_burst = rb.range(1_000_000, fault_until.max(1_000_001));
        // (20-40 packets of about a frame each, evenly spread: flush credit is capped at rate x
        // RTT, and a frame of 127 datagrams plus its successor needs about a kilobyte of it)
        // ... and the link is clean until 300 ms before the burst: the fault rules of the plan
        // that begin earlier begin then
        {
            let t0 = t_burst - 300_000;
            let mut last: std::collections::BTreeMap<(Option<usize>, Option<usize>), LinkRule> = Default::default();
            for tl in plan.timeline.iter_mut() {
                if tl.t_us < t0 {
                    if let Op::Link { from, to, rule } = &mut tl.op {
                        last.insert((*from, *to), rule.clone());
                        *rule = clean_rule(rule.latency_us);
                    }
                }
            }
            for ((from, to), rule) in last {
                plan.push(t0, 2, Op::Link { from, to, rule });
            }
        }
        let n_warm = rb.range(20, 40);
        for k in 0..n_warm {
            let t = t_burst * k / n_warm + rb.below(t_burst / n_warm / 2 + 1);
            plan.push(t, 0x4000_0000 + tag, Op::Send { ep: 0, to: None, ch: short_ch, mode: *rb.pick(&[MODE_RELIABLE, MODE_PERSISTENT]), len: rb.range(800, 1400) as u32, tag });
            tag += 1;
        }
        for _ in 0..rb.range(1, 3) {
            let t = rb.range(t_burst, fault_until.max(t_burst + 1));
            for _ in 0..*rb.pick(&[127u32, 128, 129, 130, 200, 254, 255, 300]) {
                plan.push(t, 0x4000_0000 + tag, Op::Send { ep: 0, to: None, ch: short_ch, mode: tiny_mode, len: rb.below(4) as u32, tag });
                tag += 1;
            }
            if rb.chance(0.5) {
                plan.push(t, 0x4000_0000 + tag, Op::Send { ep: 0, to: None, ch: short_ch, mode: MODE_RELIABLE, len: rb.range(12, 200) as u32, tag });
                tag += 1;
            }
        }
        plan.sort();
    }
    // bounded backlog: at most 64 frames worth of payload per direction
    let mut bytes = [0u64; 2];
    plan.timeline.retain(|t| match &t.op {
        Op::Send { ep, len, .. } => {
            bytes[*ep] += *len as u64 + 14;
            bytes[*ep] <= 64 * 1448
        }
        _ => true,
    });
    plan.params.insert("expect_live".into(), 1.0);
    plan.params.insert("end_when_quiescent".into(), 1.0);
    plan
}
fn c02_gen_b(seed: u64, run: u64, thorough: bool) -> Plan {
    let mut plan = b_transport("C02", "b_fault_then_fair", seed, run, thorough, true, false, true);
    // every other run: the first client's own traffic is replaced by parent-lead patterns - a
    // Reliable packet on one channel, 126..300 small packets of other modes on a second channel
    // with a Reliable one among them, then small packets on the first channel again, all in one
    // instant during the fault phase: leads of exactly 127/128 and 255/256 packets, where the
    // datagram header formats change, while the Reliable packet they refer to may be lost
    if (run / 6) % 2 == 0 {
        let mut r = Rng::keyed(&[seed, run, 0xb02]);
        let heal = plan.timeline.iter().find(|t| matches!(&t.op, Op::Mark { name } if name == "heal")).map(|t| t.t_us).unwrap_or(5_000_000);
        let c = 1usize;
        plan.timeline.retain(|t| !matches!(&t.op, Op::Send { ep, .. } if *ep == c));
        let mut tag = 800_000u32;
        for _ in 0..r.range(2, 4) {
            let t = r.range(1_000_000, heal.max(1_000_001));
            let (a, b) = (r.below(2) as u8, 2 + r.below(2) as u8);
            let other = *r.pick(&[MODE_UNRELIABLE, MODE_PERSISTENT]);
            let mut push = |plan: &mut Plan, ch: u8, mode: u8, len: u32| {
                plan.push(t, 0x4000_0000 + tag, Op::Send { ep: c, to: None, ch, mode, len, tag });
                tag += 1;
            };
            push(&mut plan, a, MODE_RELIABLE, r.range(12, 40) as u32);
            let far = *r.pick(&[120u64, 126, 200, 250, 254]);
            for _ in 0..far {
                push(&mut plan, b, other, r.range(12, 60) as u32);
            }
            push(&mut plan, b, MODE_RELIABLE, r.range(12, 40) as u32);
            for _ in 0..(258 - far).max(8) + r.range(0, 40) {
                push(&mut plan, a, other, r.range(12, 63) as u32);
            }
        }
        plan.sort();
    }
    plan
}
fn c02_gen_one_way(seed: u64, run: u64, thorough: bool) -> Plan {
    world_b_one_way("C02", "b_one_way_stream", seed, run, thorough)
}
fn c02_oracles(plan: &Plan) -> Vec<Box<dyn Oracle>> {
    with_states(vec![Box::new(TransportOracle::new("C02", TransportClauses { reliable_not_skipped: true, reliable_live: true, ..Default::default() }, plan))])
}

pub fn c02() -> CheckDef {
    CheckDef {
        property: "C02",
        families: vec![Family { name: "a_fault_then_fair", world: "A", weight: 3, gen: c02_gen, oracles: c02_oracles, adversary: None, claims: None, keep_workload: false, custom: None,
            what: "finite fault prefix (loss/dup/reorder/flips/blackouts/ack- or sync-targeted loss, stalls) then a fair link (<= 200 ms, stepping <= 200 ms); safety on every delivery, liveness at quiescence or after T_live = 900 s + 128 s x 80 frames" },
            Family { name: "b_fault_then_fair", world: "B", weight: 2, gen: c02_gen_b, oracles: c02_oracles, adversary: None, claims: None, keep_workload: false, custom: None,
                what: "the same through the public API: real Client/Server (1-3 clients, both directions), faults until the heal, then a fair link; at most 64 frames of payload per direction" },
            Family { name: "b_one_way_stream", world: "B", weight: 1, gen: c02_gen_one_way, oracles: c02_oracles, adversary: None, claims: None, keep_workload: false, custom: None,
                what: "loss-free link (latency 0.1-100 ms, jitter, duplicates), one side streams Reliable packets every 3 ms .. timeout/3 for 2-4 (thorough: 2-8) silence timeouts (1.5-25 s), the other side only acknowledges, with its keepalive off, slower than the timeout, or on: nothing may end the connection, so every packet has to arrive" }],
        panic_is_violation: no_panics,
        hang_is_violation: false,
        quick_runs: 4500,
        thorough_runs: 40_000,
        rule: "one case = one simulated run; distinct = distinct run digest; non-trivial = at least 10 packets delivered",
        real_code: REAL_A,
        stubs: STUB_A,
        assumptions: vec![
            "liveness budget derived from the RFC 5348 floor rate s/64 (one full frame per 64 s) with backlog bounded to 64 frames per direction",
            "runs end early once every sender reports an empty buffer and nothing is in flight",
        ],
    }
}


// ------------------------------------------------------------------------------------------ C03

fn states_only(_plan: &Plan) -> Vec<Box<dyn Oracle>> {
    with_states(Vec::new())
}

/// Victim half connection against a hostile connected peer (a raw endpoint that only the
/// adversary speaks for), interleaved with valid API calls at arbitrary times incl. 0 ms spacing.
fn c03_gen_hostile_peer(seed: u64, run: u64, thorough: bool) -> Plan {
    let mut r = Rng::keyed(&[seed, run, 0xc03]);
    let mut plan = Plan::new("C03", "a_hostile_peer", seed, run);
    plan.fate_seed = Some(crate::rng::key(&[seed, run, 0xfa7e]));
    let setup = ASetup::sample(&mut r, run % 3 == 0, run % 2 == 0);
    let mut eps = setup.endpoints();
    eps[1].kind = EndpointKind::Raw;
    // a hostile handshake may advertise any limits, including 0 and 2^32-1
    if run % 8 == 1 {
        if let EndpointKind::Hc { spec, .. } = &mut eps[0].kind {
            spec.tx_bandwidth_limit = *r.pick(&[0u32, 0, 1, 22, 23, u32::MAX]);
            if r.chance(0.3) {
                spec.tx_alloc_limit = *r.pick(&[0u64, 1, u32::MAX as u64]);
            }
        }
    }
    plan.endpoints = eps;
    plan.push(0, 0, Op::Create { ep: 0 });
    plan.push(0, 1, Op::Create { ep: 1 });
    let horizon = r.range(1, if thorough { 20 } else { 8 }) * 1_000_000;
    plan.push(0, 2, Op::Link { from: None, to: None, rule: clean_rule(r.range(0, 20_000)) });
    let max_len = ((setup.alloc[1] + FRAG - 1) / FRAG * FRAG).min(20_000);
    let n_packets = r.range(0, 60);
    let w = Workload::sample(&mut r, n_packets, max_len);
    w.sends(&mut r, &mut plan, 0, None, 0, horizon, 0);
    let mut cad = Cadence::sample(&mut r);
    if run % 4 == 0 {
        cad.period_us = 0; // bursts of steps with 0..2 us spacing
    }
    cad.steps(&mut r, &mut plan, 0, 0, horizon, if cad.period_us == 0 { 400 } else { 3000 }, true);
    // the raw endpoint drains its inbox now and then
    let mut t = 0;
    while t < horizon {
        plan.push(t, 5, Op::Step { ep: 1 });
        t += 500_000;
    }
    plan.adversary = "hostile_peer".into();
    plan.params.insert("hostile_big".into(), (run % 16 == 5) as u64 as f64);
    plan.params.insert("hostile_max".into(), r.range(20, 600) as f64);
    plan.end_us = horizon;
    plan.sort();
    plan
}
fn c03_adv_peer(plan: &Plan) -> Option<Box<dyn Adversary>> {
    Some(Box::new(Hostile::new(plan, vec![(0, 1)])))
}

/// Genuine pair plus a hostile middlebox that injects crafted frames at both ends.
fn c03_gen_mitm(seed: u64, run: u64, thorough: bool) -> Plan {
    let mut r = Rng::keyed(&[seed, run, 0xc03]);
    let horizon = r.range(2, if thorough { 30 } else { 10 }) * 1_000_000;
    let sc = AScenario {
        near_wrap: run % 3 == 0,
        small_windows: run % 2 == 0,
        packets: r.range(10, 200),
        send_window_us: horizon,
        fault_until_us: horizon,
        horizon_us: horizon,
        allow_flips: true,
        allow_stalls: true,
        phases: r.range(1, 3),
    };
    let mut plan = world_a_general("C03", "a_hostile_mitm", seed, run, &sc, false);
    plan.adversary = "hostile_mitm".into();
    plan.params.insert("hostile_max".into(), r.range(20, 400) as f64);
    plan
}
fn c03_adv_mitm(plan: &Plan) -> Option<Box<dyn Adversary>> {
    Some(Box::new(Hostile::new(plan, vec![(0, 1), (1, 0)])))
}

/// Genuine endpoints only: panics and hangs reachable by loss, delay and timing alone.
fn c03_gen_genuine(seed: u64, run: u64, thorough: bool) -> Plan {
    let mut r = Rng::keyed(&[seed, run, 0xc03]);
    let mut sc = c01_sc(&mut r, thorough, run % 3 == 0, run % 2 == 0);
    sc.phases = r.range(2, 5);
    let mut plan = world_a_general("C03", "a_genuine", seed, run, &sc, run % 2 == 1);
    // every fourth run: many steps are followed by another one within the same millisecond
    // (0.05-0.9 ms later), so that two consecutive step() calls see the same clock value with
    // frames arriving in between
    if run % 4 == 2 {
        let mut extra = Vec::new();
        for t in plan.timeline.iter() {
            if let Op::Step { ep } = &t.op {
                if r.chance(0.4) {
                    extra.push((t.t_us + r.range(50, 900), *ep));
                }
            }
        }
        for (t, ep) in extra {
            plan.push(t, r.u32() | 1, Op::Step { ep });
        }
        plan.sort();
    }
    if run % 2 == 1 {
        plan.end_us = plan.end_us.min(sc.fault_until_us + 120_000_000);
        for t in plan.timeline.iter_mut() {
            if let Op::StepEvery { until_us, .. } = &mut t.op {
                *until_us = plan.end_us;
            }
        }
    }
    plan
}


/// World B: a server that also serves genuine echo clients is attacked from raw sockets that
/// complete the handshake by hand; afterwards the genuine clients must still be served.
fn c03_gen_b(seed: u64, run: u64, thorough: bool) -> Plan {
    let mut r = Rng::keyed(&[seed, run, 0xb03]);
    let mut plan = Plan::new("C03", "b_connected_attacker", seed, run);
    plan.fate_seed = Some(crate::rng::key(&[seed, run, 0xfa7e]));
    let mut scfg = sample_cfg(&mut r);
    scfg.active_timeout_ms = 60_000;
    scfg.max_packet_size = scfg.max_packet_size.min(20_000);
    let base_server = scfg.clone();
    let n_clients = r.range(1, 2) as usize;
    let n_raw = r.range(1, 3) as usize;
    let topo = topology(&mut plan, &mut r, n_clients, n_raw, scfg, 64, 32, |r, _| {
        let mut c = sample_cfg(r);
        c.active_timeout_ms = 60_000;
        let mut s = base_server.clone();
        make_compatible(&mut c, &mut s);
        c.max_packet_size = c.max_packet_size.min(base_server.max_receive_alloc).min(20_000);
        c.max_receive_alloc = c.max_receive_alloc.max(base_server.max_packet_size);
        c
    });
    plan.endpoints[0].echo = true;
    plan.push(0, 0, Op::Create { ep: 0 });
    let latency = r.range(100, 50_000);
    plan.push(0, 2, Op::Link { from: None, to: None, rule: clean_rule(latency) });
    let hostile_until = r.range(3, if thorough { 25 } else { 10 }) * 1_000_000;
    let horizon = hostile_until + 20_000_000;
    for &raw in topo.raws.iter() {
        plan.push(0, 1, Op::Create { ep: raw });
        plan.push(1000, 5, Op::StepEvery { ep: raw, period_us: 500_000, until_us: hostile_until + 1_000_000 });
    }
    let mut tag = 0u32;
    for &c in topo.clients.iter() {
        plan.push(r.below(200_000), 1, Op::Create { ep: c });
        let period = r.range(5_000, 60_000);
        plan.push(300_000 + r.below(period), r.u32() | 1, Op::StepEvery { ep: c, period_us: period, until_us: horizon });
        // genuine traffic during the attack
        for _ in 0..r.range(5, 60) {
            plan.push(r.range(500_000, hostile_until), 0x4000_0000 + tag, Op::Send { ep: c, to: None, ch: r.below(4) as u8, mode: r.below(4) as u8, len: r.range(12, 3000) as u32, tag });
            tag += 1;
        }
        // after the hostile phase: a fresh exchange must complete
        let mut ptag = PROBE_TAG + c as u32 * 100;
        for k in 0..3u64 {
            plan.push(hostile_until + 500_000 + k * 300_000, 0x4000_0000 + ptag, Op::Send { ep: c, to: None, ch: 1, mode: MODE_RELIABLE, len: r.range(12, 1500) as u32, tag: ptag });
            ptag += 1;
        }
    }
    let mut cad = Cadence::sample(&mut r);
    if run % 4 == 0 {
        cad.period_us = 0;
    }
    cad.stall_p = 0.0;
    cad.steps(&mut r, &mut plan, 0, 0, hostile_until, if cad.period_us == 0 { 600 } else { 6000 }, false);
    let period = cad.period_us.clamp(1000, 50_000);
    plan.push(hostile_until, r.u32() | 1, Op::StepEvery { ep: 0, period_us: period, until_us: horizon });
    plan.push(hostile_until, 3, Op::Mark { name: "heal".into() });
    plan.adversary = "connected_attacker".into();
    plan.params.insert("hostile".into(), 1.0);
    plan.params.insert("hostile_until_us".into(), hostile_until as f64);
    plan.params.insert("hostile_max".into(), r.range(50, 1500) as f64);
    plan.params.insert("hostile_big".into(), (run % 16 == 3) as u64 as f64);
    plan.params.insert("short_ch".into(), 63.0);
    {
        // the server application hangs up on some of its peers while the attack is on - on the
        // attackers' connections (what comes back while the server waits for the acknowledgement
        // is theirs to choose) and, later, on a genuine client's (drawn from a generator of its own)
        let mut r = Rng::keyed(&[seed, run, 0xb03_d15c]);
        for &raw in topo.raws.iter() {
            if r.chance(0.5) {
                let t = r.range(1_000_000, hostile_until);
                plan.push(t, r.u32() | 1, if r.chance(0.5) { Op::Disconnect { ep: 0, to: Some(raw) } } else { Op::DisconnectNow { ep: 0, to: Some(raw) } });
            }
        }
    }
    plan.end_us = horizon;
    plan.sort();
    // (no failing socket calls here: "the next n send calls fail" would hit different datagrams
    // in the two executions that this family compares)
    plan
}
/// World B, the client's side of the same question: a genuine Client whose "server" is a raw
/// socket driven by the HostileServer adversary (connection request answered by hand with
/// boundary limits, then crafted frames). The application queues packets before and after the
/// handshake, steps, flushes and disconnects as usual.
fn c03_gen_b_server(seed: u64, run: u64, thorough: bool) -> Plan {
    let mut r = Rng::keyed(&[seed, run, 0xb035]);
    let mut plan = Plan::new("C03", "b_hostile_server", seed, run);
    plan.fate_seed = Some(crate::rng::key(&[seed, run, 0xfa7e]));
    let mut cfg = sample_cfg(&mut r);
    cfg.active_timeout_ms = *r.pick(&[2_000u64, 20_000, 60_000]);
    cfg.max_packet_size = cfg.max_packet_size.min(200_000);
    plan.endpoints.push(EndpointSpec { kind: EndpointKind::Raw, addr: server_addr(), clock_ppm: 1_000_000, echo: false, nonces: Vec::new() });
    plan.endpoints.push(EndpointSpec { kind: EndpointKind::Client { cfg: cfg.clone(), server: 0 }, addr: client_addr(0), clock_ppm: 1_000_000, echo: false, nonces: if r.chance(0.3) { vec![0u32.wrapping_sub(r.range(1, 6000) as u32)] } else { Vec::new() } });
    plan.push(0, 0, Op::Create { ep: 0 });
    let latency = r.range(100, 50_000);
    plan.push(0, 2, Op::Link { from: None, to: None, rule: clean_rule(latency) });
    let hostile_until = r.range(3, if thorough { 25 } else { 10 }) * 1_000_000;
    let horizon = hostile_until + 5_000_000;
    plan.push(1000, 5, Op::StepEvery { ep: 0, period_us: 500_000, until_us: horizon });
    let t_create = r.below(200_000);
    plan.push(t_create, 1, Op::Create { ep: 1 });
    let period = *r.pick(&[0u64, 1_000, 10_000, 60_000]);
    if period == 0 {
        // 0 ms spacing: several steps at the same instant, now and then
        let mut t = t_create + 1000;
        while t < horizon {
            for _ in 0..r.range(1, 4) {
                plan.push(t, r.u32() | 1, Op::Step { ep: 1 });
            }
            t += r.range(1_000, 80_000);
        }
    } else {
        plan.push(t_create + r.below(period), r.u32() | 1, Op::StepEvery { ep: 1, period_us: period, until_us: horizon });
    }
    let mut tag = 0u32;
    // packets handed over while the handshake is pending (they wait for the negotiated limits)
    // and during the connection's life
    for _ in 0..r.range(0, 12) {
        let len = *r.pick(&[0u64, 1, 12, 100, 1448, 1449, 3000, 20_000, cfg.max_packet_size]);
        plan.push(t_create + r.below(2 * latency + 150_000), 0x4000_0000 + tag, Op::Send { ep: 1, to: None, ch: r.below(64) as u8, mode: r.below(4) as u8, len: len.min(cfg.max_packet_size) as u32, tag });
        tag += 1;
    }
    for _ in 0..r.range(0, 40) {
        plan.push(r.range(t_create, hostile_until), 0x4000_0000 + tag, Op::Send { ep: 1, to: None, ch: r.below(4) as u8, mode: r.below(4) as u8, len: r.range(0, 5000).min(cfg.max_packet_size) as u32, tag });
        tag += 1;
    }
    for _ in 0..r.range(0, 6) {
        plan.push(r.range(t_create, horizon), r.u32() | 1, Op::Flush { ep: 1 });
    }
    if r.chance(0.4) {
        let t = r.range(t_create, horizon);
        plan.push(t, r.u32() | 1, if r.chance(0.5) { Op::Disconnect { ep: 1, to: None } } else { Op::DisconnectNow { ep: 1, to: None } });
    }
    plan.params.insert("hostile_until_us".into(), hostile_until as f64);
    plan.params.insert("hostile_max".into(), r.range(50, 1500) as f64);
    if r.chance(0.2) {
        plan.params.insert("hostile_big".into(), 1.0);
    }
    plan.params.insert("short_ch".into(), 63.0);
    plan.adversary = "hostile_server".into();
    plan.end_us = horizon;
    plan.sort();
    plan
}
fn c03_adv_b_server(plan: &Plan) -> Option<Box<dyn Adversary>> {
    Some(Box::new(crate::adversary::HostileServer::new(plan)))
}
fn c03_adv_b(plan: &Plan) -> Option<Box<dyn Adversary>> {
    Some(Box::new(ConnectedAttacker::new(plan)))
}
fn c03_oracles_b(_plan: &Plan) -> Vec<Box<dyn Oracle>> {
    // "keeps serving its other connections": the genuine clients' probes after the attack arrive
    with_states(vec![Box::new(RecoveryOracle::new("C03"))])
}

pub fn c03() -> CheckDef {
    CheckDef {
        property: "C03",
        families: vec![
            Family { name: "a_hostile_peer", world: "A", weight: 5, gen: c03_gen_hostile_peer, oracles: states_only, adversary: Some(c03_adv_peer), claims: None, keep_workload: false, custom: None,
                what: "victim half connection vs a connected hostile peer: CRC-valid data/sync/ack frames with boundary, near-valid (computed from the victim's own frames) and random fields, fragment counts up to 65535, handshake/disconnect frames, random bytes, replays; interleaved with send/step/flush at arbitrary times incl. 0 us spacing" },
            Family { name: "u_feedback", world: "U", weight: 2, gen: c03_gen_u, oracles: states_only, adversary: None, claims: None, keep_workload: false, custom: None,
                what: "the rate computer alone, as in C14: every sequence of acknowledgements amounts to some sequence of feedback reports (RTT samples 0..60 s, receive rates 0..2^32-1, loss rates 0..1, gaps 0 ms..10 min, ceilings 0..2^32-1); step() has to return" },
            Family { name: "a_hostile_mitm", world: "A", weight: 3, gen: c03_gen_mitm, oracles: states_only, adversary: Some(c03_adv_mitm), claims: None, keep_workload: false, custom: None,
                what: "genuine pair under faults plus a hostile middlebox injecting crafted frames at both ends" },
            Family { name: "b_connected_attacker", world: "B", weight: 3, gen: c03_gen_b, oracles: c03_oracles_b, adversary: Some(c03_adv_b), claims: None, keep_workload: true, custom: Some(twin_events_run),
                what: "real Server with 1-2 genuine clients (echo traffic) attacked from 1-3 raw sockets: most complete the handshake by hand (SYN, read the SYN-ACK, return the nonce) and then send crafted data/sync/ack/handshake/disconnect frames computed from what the server tells them; the others send arbitrary frames; twin run without the attacker's datagrams: the genuine endpoints' event streams (Connect / Receive with payload / Disconnect / Error, with their times) must be identical, i.e. offending input is discarded and the other connections keep being served exactly as before" },
            Family { name: "b_hostile_server", world: "B", weight: 2, gen: c03_gen_b_server, oracles: states_only, adversary: Some(c03_adv_b_server), claims: None, keep_workload: true, custom: None,
                what: "real Client whose server is a raw socket driven by a hostile peer: the connection request is answered by hand (nonce echoed, sometimes not; limits from {0, 1, 22, 23, 1448, 1449, ..., 2^32-1}; answered twice with different limits, followed by a refusal, or only after repeats), then crafted data/sync/ack/handshake/disconnect frames computed from what the client tells it; the application hands over packets of 0 bytes..max_packet_size before and after the handshake on all 64 channels, steps every 0-60 ms, flushes, disconnects" },
            Family { name: "a_genuine", world: "A", weight: 2, gen: c03_gen_genuine, oracles: states_only, adversary: None, claims: None, keep_workload: false, custom: None,
                what: "genuine pair only: loss, blackouts, delay, stalls (panics and hangs reachable without any forged frame)" },
        ],
        panic_is_violation: all_panics,
        hang_is_violation: true,
        quick_runs: 12000,
        thorough_runs: 300_000,
        rule: "one case = one simulated run; oracle = no panic located in uflow and every call returns (wall-clock watchdog, confirmed in a child process under an alarm); distinct = distinct run digest; non-trivial = every run (all of them deliver hostile or faulty traffic)",
        real_code: "World A families: HalfConnection and below; World B family: Client, Server, RemoteClient, event queue, UdpFrameSink and everything below",
        stubs: "clock (H2), rand (H3), UDP socket (H4); Client/Server glue mirrored by the harness in World A only",
        assumptions: vec![
            "simulation profile = release + debug assertions + overflow checks: a failing debug_assert or arithmetic overflow inside uflow counts as a panic (debug builds of applications would hit it)",
            "the hostile peer cannot guess 32-bit handshake nonces it never saw; as a connected peer it knows the starting sequence numbers",
            "a hang is reported only after it reproduced in a child process",
        ],
    }
}


// ------------------------------------------------------------------------------------------ C04

/// Swept dimension: the payload length is a deterministic function of the run index, so the whole
/// boundary set is covered in every tier; fault history and everything else is sampled.
fn c04_plan(scenario: &str, seed: u64, run: u64, thorough: bool, rewrite: bool) -> Plan {
    let mut r = Rng::keyed(&[seed, run, 0xc04]);
    let lens = boundary_lengths();
    let slot = (run / 3) as usize;
    let swept: u32 = if slot % 40 == 39 {
        // occasionally the maximum: a full megabyte (691 fragments), or a random large size
        if r.chance(0.5) { 1_000_000 } else { r.range(70_000, 1_000_000) as u32 }
    } else if run >= 2000 {
        let l2 = word_boundary_lengths();
        l2[slot % l2.len()]
    } else {
        lens[slot % lens.len()]
    };
    let mut plan = Plan::new("C04", scenario, seed, run);
    plan.fate_seed = Some(crate::rng::key(&[seed, run, 0xfa7e]));
    let mut setup = ASetup::sample(&mut r, run % 5 == 0, false);
    for i in 0..2 {
        setup.alloc[i] = setup.alloc[i].max(swept as u64 + r.range(0, 3) * FRAG);
        if swept > 70_000 {
            setup.bandwidth[i] = setup.bandwidth[i].max(500_000);
            setup.win_frame[i] = setup.win_frame[i].max(64);
        }
    }
    plan.endpoints = setup.endpoints();
    plan.push(0, 0, Op::Create { ep: 0 });
    plan.push(0, 1, Op::Create { ep: 1 });
    let latency = sample_latency(&mut r).min(100_000);
    let fault_until = r.range(2, if thorough { 20 } else { 8 }) * 1_000_000;
    for (from, to) in [(0usize, 1usize), (1, 0)] {
        let mut rule = faulty_rule(&mut r, latency, !rewrite);
        // fragment permutation: heavy jitter more often than elsewhere
        if r.chance(0.5) {
            rule.jitter_us = r.log_range(1000, 500_000);
        }
        if rewrite {
            // order-preserving lossy link: a fragment that arrived was also accepted, so the
            // middlebox knows which packets are in progress at the receiver
            rule.fifo = true;
            rule.dup_p = 0.0;
            rule.reorder_p = 0.0;
        }
        plan.push(0, 2, Op::Link { from: Some(from), to: Some(to), rule });
    }
    plan.push(fault_until, 2, Op::Link { from: None, to: None, rule: clean_rule(latency) });
    plan.push(fault_until, 3, Op::Mark { name: "heal".into() });
    let mut tag = 0u32;
    let mut short_ch = 0;
    let mut tiny_mode = 0;
    let mut bytes_total = 0u64;
    for ep in 0..2 {
        let max_len = ((setup.alloc[1 - ep] + FRAG - 1) / FRAG * FRAG).min(20_000);
        let mut w = Workload::sample(&mut r, 1, max_len);
        w.packets = r.range(5, 60);
        if ep == 0 {
            short_ch = w.short_ch;
            tiny_mode = w.tiny_mode;
        } else {
            w.channels = w.channels.max(short_ch + 1);
            w.short_ch = short_ch;
            w.tiny_mode = tiny_mode;
        }
        if rewrite {
            // several multi-fragment packets in flight, small ones in between
            w.mode_w = [0, 1, 2, 3];
        }
        tag += w.sends(&mut r, &mut plan, ep, None, 0, fault_until, tag);
        // the swept packet(s), interleaved with the others on the same and other channels
        let copies = r.range(1, 3);
        for _ in 0..copies {
            let mode = if swept < 4 { tiny_mode } else { *r.pick(&[MODE_RELIABLE, MODE_RELIABLE, MODE_PERSISTENT, MODE_UNRELIABLE]) };
            let ch = if swept < 12 { short_ch } else { r.below(w.channels as u64) as u8 };
            plan.push(r.range(0, fault_until), 0x4000_0000 + tag, Op::Send { ep, to: None, ch, mode, len: swept, tag });
            tag += 1;
            bytes_total += swept as u64;
        }
        let cad = Cadence::sample(&mut r);
        cad.steps(&mut r, &mut plan, ep, 0, fault_until, 6000, true);
        let period = cad.period_us.clamp(1000, 100_000);
        plan.push(fault_until + r.below(period), r.u32() | 1, Op::StepEvery { ep, period_us: period, until_us: u64::MAX });
    }
    plan.params.insert("short_ch".into(), short_ch as f64);
    plan.params.insert("expect_live".into(), 1.0);
    plan.params.insert("end_when_quiescent".into(), 1.0);
    plan.params.insert("swept_len".into(), swept as f64);
    let frames = bytes_total / 1448 + 120;
    plan.end_us = fault_until + (900 + 128 * frames.min(400)) * 1_000_000;
    for t in plan.timeline.iter_mut() {
        if let Op::StepEvery { until_us, .. } = &mut t.op {
            *until_us = plan.end_us;
        }
    }
    if rewrite {
        plan.adversary = "rewriter".into();
    }
    plan.sort();
    plan
}
fn c04_gen_lengths(seed: u64, run: u64, thorough: bool) -> Plan {
    c04_plan("a_lengths", seed, run, thorough, false)
}
fn c04_gen_rewrite(seed: u64, run: u64, thorough: bool) -> Plan {
    c04_plan("a_rewrite", seed, run, thorough, true)
}
/// World B: the swept lengths through the public API (max_packet_size up to 1 MB).
fn c04_gen_b(seed: u64, run: u64, thorough: bool) -> Plan {
    let mut plan = b_transport("C04", "b_lengths", seed, run, thorough, true, false, true);
    let lens = boundary_lengths();
    let slot = (run / 3) as usize;
    let swept = if slot % 40 == 39 {
        1_000_000
    } else if run >= 2000 {
        let l2 = word_boundary_lengths();
        l2[slot % l2.len()]
    } else {
        lens[slot % lens.len()]
    };
    // the swept packet on every connection, in both directions, inside the fault phase
    let mut r = Rng::keyed(&[seed, run, 0xb04]);
    let heal = plan.timeline.iter().find(|t| matches!(&t.op, Op::Mark { name } if name == "heal")).map(|t| t.t_us).unwrap_or(5_000_000);
    let short_ch = plan.param("short_ch", 0.0) as u8;
    let clients: Vec<(usize, u64, u64)> = plan.endpoints.iter().enumerate().filter_map(|(i, e)| match &e.kind {
        EndpointKind::Client { cfg, .. } => Some((i, cfg.max_packet_size, cfg.max_receive_alloc)),
        _ => None,
    }).collect();
    let (s_pkt, s_alloc) = match &plan.endpoints[0].kind { EndpointKind::Server { cfg, .. } => (cfg.max_packet_size, cfg.max_receive_alloc), _ => (0, 0) };
    let mut tag = 900_000u32;
    for (c, c_pkt, c_alloc) in clients {
        let up = (swept as u64).min(c_pkt).min(s_alloc) as u32;
        let down = (swept as u64).min(s_pkt).min(c_alloc) as u32;
        for (ep, to, len) in [(c, None, up), (0usize, Some(c), down)] {
            let mode = if len < 4 { MODE_RELIABLE } else { *r.pick(&[MODE_RELIABLE, MODE_RELIABLE, MODE_PERSISTENT]) };
            if len < 4 {
                continue;
            }
            let ch = if len < 12 { short_ch } else { r.below(4) as u8 };
            plan.push(r.range(1_000_000, heal.max(1_000_001)), 0x4000_0000 + tag, Op::Send { ep, to, ch, mode, len, tag });
            tag += 1;
        }
    }
    if swept >= 70_000 {
        plan.end_us += 128 * 800 * 1_000_000;
        let end = plan.end_us;
        for t in plan.timeline.iter_mut() {
            if let Op::StepEvery { until_us, .. } = &mut t.op {
                *until_us = end;
            }
        }
    }
    // a quarter of the runs: once the link is fair, one more swept packet is handed over and the
    // application asks for a graceful disconnect at once - the packet must still arrive whole
    if r.chance(0.25) {
        let clients: Vec<(usize, u64)> = plan.endpoints.iter().enumerate().filter_map(|(i, e)| match &e.kind {
            EndpointKind::Client { cfg, .. } => Some((i, cfg.max_packet_size)),
            _ => None,
        }).collect();
        for (c, c_pkt) in clients {
            let len = (swept as u64).min(c_pkt).min(s_alloc).max(12) as u32;
            let t = heal + r.range(500_000, 3_000_000);
            plan.push(t, 0x4000_0000 + tag, Op::Send { ep: c, to: None, ch: r.below(4) as u8, mode: MODE_RELIABLE, len, tag });
            tag += 1;
            plan.push(t + 1, 0x6000_0000, Op::Disconnect { ep: c, to: None });
        }
    }
    plan.params.insert("swept_len".into(), swept as f64);
    plan.sort();
    plan
}
fn c04_oracles_b(plan: &Plan) -> Vec<Box<dyn Oracle>> {
    let mut v = c04_oracles(plan);
    if plan.timeline.iter().any(|t| matches!(t.op, Op::Disconnect { .. })) {
        v.push(Box::new(DisconnectOracle::new("C04")));
    }
    v
}
fn c04_oracles(plan: &Plan) -> Vec<Box<dyn Oracle>> {
    with_states(vec![Box::new(TransportOracle::new("C04", TransportClauses { order: true, frame_size: true, reliable_live: true, ..Default::default() }, plan))])
}
fn c04_adv(plan: &Plan) -> Option<Box<dyn Adversary>> {
    Some(Box::new(Rewriter::new(plan)))
}

/// One packet of the largest size there is (65536 fragments, or a few bytes less) on a clean, fast
/// link, preceded by a small packet that is still unacknowledged when it is submitted.
fn max_packet_plan(property: &'static str, scenario: &'static str, seed: u64, run: u64) -> Plan {
    let mut r = Rng::keyed(&[seed, run, 0x6d6178]);
    let mut plan = Plan::new(property, scenario, seed, run);
    plan.fate_seed = Some(crate::rng::key(&[seed, run, 0xfa7e]));
    let mut setup = ASetup::default_like();
    setup.packet_base = [r.u32() & 0xFFFFF, r.u32() & 0xFFFFF];
    setup.frame_base = [r.u32(), r.u32()];
    let max = uflow::MAX_PACKET_SIZE as u64;
    for i in 0..2 {
        setup.bandwidth[i] = 2_000_000_000;
        setup.alloc[i] = max;
    }
    plan.endpoints = setup.endpoints();
    plan.push(0, 0, Op::Create { ep: 0 });
    plan.push(0, 1, Op::Create { ep: 1 });
    plan.push(0, 2, Op::Link { from: None, to: None, rule: clean_rule(r.range(2_000, 20_000)) });
    plan.push(0, 3, Op::Mark { name: "heal".into() });
    let len = (max - *r.pick(&[0u64, 0, 1, 700, 1447, 1448])) as u32;
    let t = 50_000;
    plan.push(t, 0x4000_0000, Op::Send { ep: 0, to: None, ch: 1, mode: MODE_RELIABLE, len: r.range(100, 3000) as u32, tag: 0 });
    plan.push(t + r.range(1, 3000), 0x4000_0001, Op::Send { ep: 0, to: None, ch: r.below(3) as u8, mode: *r.pick(&[MODE_RELIABLE, MODE_PERSISTENT]), len, tag: 1 });
    plan.push(t + 4000, 0x4000_0002, Op::Send { ep: 0, to: None, ch: 2, mode: MODE_RELIABLE, len: r.range(12, 3000) as u32, tag: 2 });
    let horizon = 120_000_000;
    let period = r.range(500, 3000);
    plan.push(100, 3, Op::StepEvery { ep: 0, period_us: period, until_us: horizon });
    plan.push(300, 3, Op::StepEvery { ep: 1, period_us: period, until_us: horizon });
    plan.params.insert("end_when_quiescent".into(), 1.0);
    plan.params.insert("expect_live".into(), 1.0);
    plan.end_us = horizon;
    plan.sort();
    plan
}
/// Packets cut by the frame window. One side sends over a forward link that loses nothing and
/// keeps order, with a frame window of a few frames, so that multi-fragment packets of the
/// non-resend modes are cut across flushes by the window; the acknowledgements are held back for
/// longer than the sender's sync timeout (the reverse link is dark for 2.2-8 s, more than once).
/// Every fragment reaches the receiver, so every packet has to be delivered whole and in order.
fn c04_gen_window_cut(seed: u64, run: u64, thorough: bool) -> Plan {
    let mut r = Rng::keyed(&[seed, run, 0xc04_c07]);
    let mut plan = Plan::new("C04", "a_window_cut", seed, run);
    plan.fate_seed = Some(crate::rng::key(&[seed, run, 0xfa7e]));
    let mut setup = ASetup::default_like();
    let w = *r.pick(&[2u32, 3, 4, 8, 16]);
    setup.win_frame = [w, w];
    setup.packet_base = [r.u32() & 0xFFFFF, r.u32() & 0xFFFFF];
    setup.frame_base = [r.u32(), r.u32()];
    plan.endpoints = setup.endpoints();
    plan.push(0, 0, Op::Create { ep: 0 });
    plan.push(0, 1, Op::Create { ep: 1 });
    let one_way = r.range(1_000, 60_000);
    plan.push(0, 2, Op::Link { from: None, to: None, rule: clean_rule(one_way) });
    let mut tag = 0u32;
    let mut t = 50_000u64;
    // warm-up: a few small packets so that an RTT estimate (and with it send credit) is in place
    for _ in 0..r.range(2, 6) {
        plan.push(t, 0x4000_0000 + tag, Op::Send { ep: 0, to: None, ch: r.below(3) as u8, mode: *r.pick(&[MODE_RELIABLE, MODE_UNRELIABLE]), len: r.range(12, 1200) as u32, tag });
        tag += 1;
        t += r.range(4 * one_way, 12 * one_way + 50_000);
    }
    t += 500_000;
    for _ in 0..r.range(1, if thorough { 5 } else { 3 }) {
        // acknowledgements vanish; right then packets of more fragments than the window has room
        let mut dark = clean_rule(one_way);
        dark.blackout = true;
        plan.push(t, 2, Op::Link { from: Some(1), to: Some(0), rule: dark });
        let mut ts = t + r.below(50_000);
        for _ in 0..r.range(1, 3) {
            let frags = r.range(w as u64 + 1, 4 * w as u64 + 2);
            let len = (frags * FRAG - r.below(FRAG)) as u32;
            let mode = *r.pick(&[MODE_UNRELIABLE, MODE_UNRELIABLE, MODE_UNRELIABLE, MODE_PERSISTENT, MODE_RELIABLE]);
            plan.push(ts, 0x4000_0000 + tag, Op::Send { ep: 0, to: None, ch: r.below(3) as u8, mode, len: len.max(12), tag });
            tag += 1;
            ts += r.below(30_000);
        }
        let outage = r.range(2_200_000, 8_000_000);
        plan.push(t + outage, 2, Op::Link { from: Some(1), to: Some(0), rule: clean_rule(one_way) });
        t += outage + r.range(1_000_000, 4_000_000);
    }
    // the outages cost the sender most of its allowed rate: the run lasts until everything has
    // been delivered and acknowledged, or for the liveness budget of C02 (s/64 floor)
    let horizon = t + 900_000_000 + 128_000_000 * 40;
    let p0 = r.range(5_000, 50_000);
    let p1 = r.range(5_000, 50_000);
    plan.push(r.below(p0), 3, Op::StepEvery { ep: 0, period_us: p0, until_us: horizon });
    plan.push(r.below(p1), 3, Op::StepEvery { ep: 1, period_us: p1, until_us: horizon });
    plan.params.insert("end_when_quiescent".into(), 1.0);
    plan.end_us = horizon;
    plan.sort();
    plan
}
fn c04_oracles_window_cut(plan: &Plan) -> Vec<Box<dyn Oracle>> {
    with_states(vec![Box::new(TransportOracle::new("C04", TransportClauses { order: true, frame_size: true, ideal: true, ..Default::default() }, plan))])
}

fn c04_gen_max(seed: u64, run: u64, _thorough: bool) -> Plan {
    max_packet_plan("C04", "a_max_packet", seed, run)
}

pub fn c04() -> CheckDef {
    CheckDef {
        property: "C04",
        families: vec![
            Family { name: "a_max_packet", world: "A", weight: 1, gen: c04_gen_max, oracles: c04_oracles, adversary: None, claims: None, keep_workload: true, custom: None,
                what: "one Reliable or Persistent packet of the largest size there is (65536 fragments, 94.9 MB, or up to one fragment less) on a clean fast link, between two small packets (one run in 601: three per quick tier)" },
            Family { name: "a_lengths", world: "A", weight: 200, gen: c04_gen_lengths, oracles: c04_oracles, adversary: None, claims: None, keep_workload: false, custom: None,
                what: "payload length swept over {0,1,2,11..13,63..65,255..257, k*1448-2..k*1448+2 for k=1..8,16,45, 1 MB; in the runs from index 2000 on: 63/64/65, 127/128/129, 191/192/193, 255/256/257 fragments} by run index; fragments permuted, duplicated, partially lost and resent, interleaved with other packets, flush budgets that cut packets; then a clean link until everything Reliable has arrived" },
            Family { name: "b_lengths", world: "B", weight: 200, gen: c04_gen_b, oracles: c04_oracles_b, adversary: None, claims: None, keep_workload: false, custom: None,
                what: "the same length sweep through real Client/Server (both directions, several clients), bounded by the configured max_packet_size / max_receive_alloc; in a quarter of the runs the last swept packet is followed at once by a graceful disconnect() and must still arrive whole before the peer sees Disconnect" },
            Family { name: "a_window_cut", world: "A", weight: 60, gen: c04_gen_window_cut, oracles: c04_oracles_window_cut, adversary: None, claims: None, keep_workload: false, custom: None,
                what: "one-way traffic over a forward link that loses nothing and keeps order, frame windows of 2-16 frames, packets of more fragments than the window has room for (mostly Unreliable), acknowledgements held back for 2.2-8 s at a time (longer than the sender's sync timeout): every fragment arrives, so every packet is delivered whole, once and in order" },
            Family { name: "a_rewrite", world: "A", weight: 200, gen: c04_gen_rewrite, oracles: c04_oracles, adversary: Some(c04_adv), claims: None, keep_workload: true, custom: None,
                what: "same sweep, plus a hostile middlebox that appends to genuine frames a forged fragment for a packet in progress whose header disagrees with the first fragment seen (last-fragment id, channel or parent leads)" },
        ],
        panic_is_violation: panics_in_frame_building,
        hang_is_violation: false,
        quick_runs: 2600,
        thorough_runs: 40_000,
        rule: "one case = one simulated run; the swept length is (run index / 3) mod |boundary set|; distinct = distinct run digest; non-trivial = at least 10 packets delivered",
        real_code: REAL_A,
        stubs: STUB_A,
        assumptions: vec![
            "every delivered packet is compared byte for byte with its submission (tagged header + keyed pseudo-random body)",
            "the forged fragments target only packets whose first genuine fragment has already arrived, as the property states",
        ],
    }
}

// ------------------------------------------------------------------------------------------ C05

fn c05_gen(seed: u64, run: u64, thorough: bool) -> Plan {
    let mut r = Rng::keyed(&[seed, run, 0xc05]);
    let mut plan = Plan::new("C05", "a_ideal", seed, run);
    plan.fate_seed = Some(crate::rng::key(&[seed, run, 0xfa7e]));
    let setup = ASetup::sample(&mut r, run % 3 == 0, run % 4 == 1);
    plan.endpoints = setup.endpoints();
    plan.push(0, 0, Op::Create { ep: 0 });
    plan.push(0, 1, Op::Create { ep: 1 });
    // ideal network: no loss, no duplication, order preserved; latency fixed per run
    let latency = match r.below(5) {
        0 => r.range(50, 1000),
        1 | 2 => r.range(1000, 50_000),
        3 => r.range(50_000, 400_000),
        _ => r.range(400_000, 3_000_000),
    };
    let mut rule = clean_rule(latency);
    rule.fifo = true;
    if r.chance(0.3) {
        rule.jitter_us = r.below(latency + 1); // varying delay, order still preserved by fifo
    }
    plan.push(0, 2, Op::Link { from: None, to: None, rule });
    let send_window = r.range(1, if thorough { 30 } else { 10 }) * 1_000_000;
    // long latencies: small workload (rate may legitimately sit at the floor, see C11)
    let cap_bytes: u64 = if latency > 150_000 { 64 * 1448 } else { 256_000 };
    let mut short_ch = 0;
    let mut tiny_mode = 0;
    for ep in 0..2 {
        let max_len = ((setup.alloc[1 - ep] + FRAG - 1) / FRAG * FRAG).min(70_000);
        let n_packets = r.range(20, if thorough { 1500 } else { 500 });
        let mut w = Workload::sample(&mut r, n_packets, max_len);
        if ep == 0 {
            short_ch = w.short_ch;
            tiny_mode = w.tiny_mode;
        } else {
            w.channels = w.channels.max(short_ch + 1);
            w.short_ch = short_ch;
            w.tiny_mode = tiny_mode;
        }
        w.sends(&mut r, &mut plan, ep, None, 0, send_window, 0);
        let cad = Cadence::sample(&mut r);
        cad.steps(&mut r, &mut plan, ep, 0, send_window, 40_000, true);
        let period = cad.period_us.clamp(1000, 200_000);
        plan.push(send_window + r.below(period), r.u32() | 1, Op::StepEvery { ep, period_us: period, until_us: u64::MAX });
    }
    let mut bytes = [0u64; 2];
    plan.timeline.retain(|t| match &t.op {
        Op::Send { ep, len, .. } => {
            bytes[*ep] += *len as u64 + 14;
            bytes[*ep] <= cap_bytes
        }
        _ => true,
    });
    plan.push(send_window, 3, Op::Mark { name: "heal".into() });
    plan.params.insert("short_ch".into(), short_ch as f64);
    plan.params.insert("end_when_quiescent".into(), 1.0);
    let frames = (bytes[0].max(bytes[1]).min(cap_bytes) / 1448 + 16) as u64;
    plan.end_us = send_window + (900 + 128 * frames.min(2000)) * 1_000_000;
    for t in plan.timeline.iter_mut() {
        if let Op::StepEvery { until_us, .. } = &mut t.op {
            *until_us = plan.end_us;
        }
    }
    plan.sort();
    plan
}
fn c05_gen_b(seed: u64, run: u64, thorough: bool) -> Plan {
    let mut plan = b_transport("C05", "b_ideal", seed, run, thorough, true, true, false);
    // a third of the runs: one more burst (a multi-fragment packet of a non-reliable mode last),
    // then a graceful disconnect() at once - on this network everything submitted before the
    // call still arrives before the peer sees Disconnect
    let mut r = Rng::keyed(&[seed, run, 0xb05]);
    if r.chance(0.33) {
        let clients: Vec<(usize, u64)> = plan.endpoints.iter().enumerate().filter_map(|(i, e)| match &e.kind {
            EndpointKind::Client { cfg, .. } => Some((i, cfg.max_packet_size)),
            _ => None,
        }).collect();
        let s_alloc = match &plan.endpoints[0].kind { EndpointKind::Server { cfg, .. } => cfg.max_receive_alloc, _ => 0 };
        let heal = plan.timeline.iter().find(|t| matches!(&t.op, Op::Mark { name } if name == "heal")).map(|t| t.t_us).unwrap_or(5_000_000);
        let mut tag = 950_000u32;
        let (s_pkt, server_side) = match &plan.endpoints[0].kind { EndpointKind::Server { cfg, .. } => (cfg.max_packet_size, r.chance(0.5)), _ => (0, false) };
        let c_allocs: Vec<u64> = plan.endpoints.iter().map(|e| match &e.kind { EndpointKind::Client { cfg, .. } => cfg.max_receive_alloc, _ => 0 }).collect();
        for (c, c_pkt) in clients {
            let t = heal + r.range(2_000_000, 6_000_000);
            // either side may be the one that sends the last burst and hangs up (the server's
            // last packets may be small ones of a mode that does not wait for acknowledgement:
            // they and the disconnect request then reach the client in one step)
            let (ep, to, cap) = if server_side { (0, Some(c), s_pkt.min(c_allocs[c])) } else { (c, None, c_pkt.min(s_alloc)) };
            let small_tail = r.chance(0.5);
            for k in 0..r.range(1, 4) {
                let len = if small_tail { r.range(12, 400) } else { r.range(1, 7) * FRAG + r.range(1, FRAG - 1) }.min(cap).max(12) as u32;
                let mode = if small_tail { MODE_UNRELIABLE } else { *r.pick(&[MODE_UNRELIABLE, MODE_PERSISTENT, MODE_RELIABLE]) };
                plan.push(t + k, 0x4000_0000 + tag, Op::Send { ep, to, ch: r.below(4) as u8, mode, len, tag });
                tag += 1;
            }
            plan.push(t + 10, 0x6000_0000, Op::Disconnect { ep, to });
        }
        plan.sort();
    } else {
        // nobody hangs up, nothing is lost, both applications keep stepping and the silence
        // timeout is half an hour: nothing may end a connection while packets are waiting, so the
        // end of a connection excuses no undelivered packet
        plan.params.insert("connection_must_last".into(), 1.0);
    }
    plan
}
fn c05_gen_one_way(seed: u64, run: u64, thorough: bool) -> Plan {
    world_b_one_way("C05", "b_one_way_stream", seed, run, thorough)
}
fn c05_oracles(plan: &Plan) -> Vec<Box<dyn Oracle>> {
    with_states(vec![Box::new(TransportOracle::new("C05", TransportClauses { ideal: true, ..Default::default() }, plan))])
}

pub fn c05() -> CheckDef {
    CheckDef {
        property: "C05",
        families: vec![Family { name: "b_ideal", world: "B", weight: 1, gen: c05_gen_b, oracles: c05_oracles, adversary: None, claims: None, keep_workload: false, custom: None,
            what: "the same through the public API: real Client/Server on a loss-free order-preserving link, 1-3 clients, both directions" },
        Family { name: "b_one_way_stream", world: "B", weight: 1, gen: c05_gen_one_way, oracles: c05_oracles, adversary: None, claims: None, keep_workload: false, custom: None,
            what: "ideal link, one side streams packets of all modes but TimeSensitive every 3 ms .. timeout/3 for several silence timeouts (1.5-25 s) while the other side only acknowledges, with its keepalive off, slower than the timeout, or on: nothing may end the connection, so every packet has to arrive, in order" },
        Family { name: "a_ideal", world: "A", weight: 3, gen: c05_gen, oracles: c05_oracles, adversary: None, claims: None, keep_workload: false, custom: None,
            what: "order-preserving loss-free link (fixed or varying latency 0.05 ms..3 s), both directions, bursts beyond the flush budget and both windows, arbitrary cadences and stalls, all initial ids; delivered sequence must equal submitted sequence minus sender-dropped TimeSensitive packets" }],
        panic_is_violation: all_panics,
        hang_is_violation: false,
        quick_runs: 3000,
        thorough_runs: 40_000,
        rule: "one case = one simulated run; distinct = distinct run digest; non-trivial = at least 10 packets delivered",
        real_code: REAL_A,
        stubs: STUB_A,
        assumptions: vec!["fault-free configuration: the strictest expectation, nothing is relaxed", "on paths above 150 ms one-way the workload is bounded to 64 frames per direction (large-RTT throughput is C11's concern)"],
    }
}


// ------------------------------------------------------------------------------------------ C06

fn c06_gen_sender(seed: u64, run: u64, thorough: bool) -> Plan {
    let mut r = Rng::keyed(&[seed, run, 0xc06]);
    let horizon = r.range(5, if thorough { 60 } else { 25 }) * 1_000_000;
    let sc = AScenario {
        near_wrap: run % 4 == 0,
        small_windows: run % 2 == 0,
        packets: r.range(100, if thorough { 3000 } else { 800 }),
        send_window_us: horizon / 2,
        fault_until_us: horizon,
        horizon_us: horizon,
        allow_flips: false,
        allow_stalls: true,
        phases: r.range(1, 3),
    };
    let mut plan = world_a_general("C06", "a_sender_respects", seed, run, &sc, false);
    // a lazy reader in a quarter of the runs: the application that embeds the half connection
    // collects received packets only in some of its turns (complete packets wait in the receive
    // window meanwhile and go on counting against the advertised allocation)
    let mut r2 = Rng::keyed(&[seed, run, 0xc06_1a2]);
    if r2.chance(0.25) {
        plan.params.insert("hc_lazy_reader_permille".into(), *r2.pick(&[300.0, 700.0, 950.0, 995.0]));
    }
    plan
}
fn c06_gen_b(seed: u64, run: u64, thorough: bool) -> Plan {
    b_transport("C06", "b_sender_respects", seed, run, thorough, false, false, false)
}
fn c06_oracles_sender(_plan: &Plan) -> Vec<Box<dyn Oracle>> {
    with_states(vec![Box::new(SenderLimitOracle::new("C06"))])
}
/// The sender half of C06 rests on the handshake: a client whose packets the server could never
/// hold (its max_packet_size above the server's max_receive_alloc, or the reverse) has to be
/// refused with Config, otherwise the sender discards such packets for lack of receive memory at
/// its peer. Asymmetric limit pairs on a clean link, the handshake oracle's clauses under C06.
fn c06_gen_limits(seed: u64, run: u64, thorough: bool) -> Plan {
    world_b_handshake("C06", "b_asymmetric_limits", seed, run, thorough, true)
}
/// The handshake under faults (lost, duplicated and reordered handshake frames, stale requests
/// that bear a client's address with other nonces and other limits, crash and restart on the
/// same address): whatever the history, the limits a connection is set up with are the ones its
/// peer advertised in the handshake that completed.
fn c06_gen_limits_faults(seed: u64, run: u64, thorough: bool) -> Plan {
    with_socket_faults(world_b_handshake("C06", "b_limits_under_faults", seed, run, thorough, false), seed, run)
}
/// Passes on only the named clauses of an oracle that decides more than one property.
struct OnlyClauses {
    inner: Box<dyn Oracle>,
    allow: &'static [&'static str],
}
impl Oracle for OnlyClauses {
    fn on(&mut self, rec: &Rec, cx: &Cx) -> Option<Violation> {
        self.inner.on(rec, cx).filter(|v| self.allow.contains(&v.clause.as_str()))
    }
    fn reach(&self, out: &mut std::collections::BTreeMap<String, u64>) {
        self.inner.reach(out)
    }
    fn nontrivial(&self) -> bool {
        self.inner.nontrivial()
    }
    fn states(&self, out: &mut Vec<u64>) {
        self.inner.states(out)
    }
}
/// Under faults only the clauses about limits are C06's business (who may connect at all, and
/// with which sequence numbers, is C07's).
fn c06_oracles_limits_faults(plan: &Plan) -> Vec<Box<dyn Oracle>> {
    with_states(vec![
        Box::new(OnlyClauses { inner: Box::new(HandshakeOracle::new("C06")), allow: &["negotiated_alloc_wrong", "negotiated_rate_wrong", "incompatible_client_connected"] }),
        Box::new(SenderLimitOracle::new("C06")),
        Box::new(TransportOracle::new("C06", TransportClauses { order: true, ..Default::default() }, plan)),
    ])
}
fn c06_claims_limits_faults(run: u64) -> bool {
    (4200..4400).contains(&run) || (run >= 4400 && run % 16 == 9)
}
fn c06_oracles_limits(plan: &Plan) -> Vec<Box<dyn Oracle>> {
    with_states(vec![
        Box::new(HandshakeOracle::new("C06")),
        Box::new(SenderLimitOracle::new("C06")),
        Box::new(TransportOracle::new("C06", TransportClauses { order: true, ..Default::default() }, plan)),
    ])
}

fn c06_gen_hostile(seed: u64, run: u64, thorough: bool, flood: bool) -> Plan {
    let mut r = Rng::keyed(&[seed, run, 0xc06]);
    let mut plan = Plan::new("C06", if flood { "a_ack_queue_flood" } else { "a_hostile_stream" }, seed, run);
    plan.fate_seed = Some(crate::rng::key(&[seed, run, 0xfa7e]));
    let mut setup = ASetup::sample(&mut r, run % 3 == 0, run % 5 == 0);
    // receiver limits from 1 byte to 4 MB
    setup.alloc[0] = match r.below(6) {
        0 => r.range(1, 1448),
        1 => r.range(1449, 30_000),
        2 => r.range(30_000, 300_000),
        3 => 1_000_000,
        4 => r.range(1_000_000, 4_000_000),
        _ => r.range(1, 4_000_000),
    };
    if flood {
        // a victim that can hardly send acknowledgements
        setup.bandwidth[0] = 1472;
        setup.win_frame[1] = 4096;
    }
    let mut eps = setup.endpoints();
    eps[1].kind = EndpointKind::Raw;
    plan.endpoints = eps;
    plan.push(0, 0, Op::Create { ep: 0 });
    plan.push(0, 1, Op::Create { ep: 1 });
    plan.push(0, 2, Op::Link { from: None, to: None, rule: clean_rule(1000) });
    let horizon = if flood { 60_000_000 } else { r.range(2, if thorough { 30 } else { 10 }) * 1_000_000 };
    // the application reads at any cadence, including (almost) never
    let mut cad = Cadence::sample(&mut r);
    if flood {
        cad.period_us = 5_000;
        cad.stall_p = 0.0;
    } else if run % 7 == 3 {
        cad.period_us = horizon / 3;
    }
    cad.flush_after_step_p = 0.0;
    // every fourth flood: the victim takes a turn only every 2-6 s and a hundred thousand frames
    // arrive in between (whatever bounds the queue of owed acknowledgements has to hold between
    // two flushes as well)
    let big_bursts = flood && run % 4 == 1;
    if big_bursts {
        cad.period_us = r.range(2_000_000, 6_000_000);
        plan.params.insert("hostile_burst_max".into(), 120_000.0);
    }
    cad.steps(&mut r, &mut plan, 0, 0, horizon, 20_000, !flood);
    let mut t = 0;
    while t < horizon {
        plan.push(t, 5, Op::Step { ep: 1 });
        t += 1_000_000;
    }
    plan.adversary = "hostile_stream".into();
    plan.params.insert("hostile".into(), 1.0);
    plan.params.insert("hostile_big".into(), 1.0);
    // every fourth stream: "tail first" - packets announced by their short (or empty) last
    // fragment only, so that whatever the receiver charges for a packet it has seen one short
    // datagram of, it must already cover the whole assembly buffer
    let tail_first = !flood && run % 4 == 2;
    if tail_first {
        plan.params.insert("hostile_tail_frags".into(), *r.pick(&[1.0, 1.0, 2.0, 3.0, 8.0]));
    }
    // every eighth: complete one-fragment packets behind a hole, far beyond the allocation
    let singles = !flood && run % 8 == 5;
    // ... half of them against an application that steps without reading most of the time, so
    // that what is accepted stays held (and counted) until it is read
    if singles && run % 16 == 5 {
        plan.params.insert("hc_lazy_reader_permille".into(), [300.0, 700.0, 950.0][(run / 16 % 3) as usize]);
    }
    plan.params.insert("hostile_focus".into(), if flood { 2.0 } else if tail_first { 3.0 } else if singles { 5.0 } else { 1.0 });
    plan.params.insert("hostile_max".into(), if big_bursts { 500_000.0 } else if flood { 150_000.0 } else if singles { r.range(1000, 6000) as f64 } else { r.range(100, 3000) as f64 });
    plan.end_us = horizon;
    plan.sort();
    plan
}
fn c06_gen_hostile_stream(seed: u64, run: u64, thorough: bool) -> Plan {
    c06_gen_hostile(seed, run, thorough, false)
}
/// A packet that grows: one packet of 52-100 % of the victim's limit arrives fragment by
/// fragment in ascending order and never completes (what a uflow sender does when the last
/// frame is lost), against limits of 20 kB .. 4 MB.
fn c06_gen_growing(seed: u64, run: u64, thorough: bool) -> Plan {
    let mut plan = c06_gen_hostile(seed, run | 1, thorough, false);
    plan.scenario = "a_growing_packet".into();
    plan.run = run;
    let mut r = Rng::keyed(&[seed, run, 0xc06_7]);
    let limit = *r.pick(&[20_000u64, 65_536, 100_000, 300_000, 1_000_000, 1_000_000, 4_000_000]) + r.below(3000);
    for i in 0..2 {
        if let EndpointKind::Hc { spec, .. } = &mut plan.endpoints[i].kind {
            if i == 0 {
                spec.rx_alloc_limit = limit;
            } else {
                spec.tx_alloc_limit = limit;
            }
        }
    }
    plan.params.insert("growing_permille".into(), r.range(520, 1000) as f64);
    plan.params.insert("hostile_focus".into(), 7.0);
    plan.params.insert("hostile_max".into(), ((limit / 1448) + 50) as f64);
    plan.params.remove("hc_lazy_reader_permille");
    plan
}
fn c06_claims_growing(run: u64) -> bool {
    (4000..4200).contains(&run) || (run >= 4200 && run % 16 == 7)
}
fn c06_gen_flood(seed: u64, run: u64, thorough: bool) -> Plan {
    c06_gen_hostile(seed, run, thorough, true)
}
fn c06_oracles_receiver(plan: &Plan) -> Vec<Box<dyn Oracle>> {
    with_states(vec![Box::new(ReceiverMemoryOracle::new("C06", 0, plan))])
}
fn c06_adv(plan: &Plan) -> Option<Box<dyn Adversary>> {
    let mut h = Hostile::new(plan, vec![(0, 1)]);
    if plan.param("hostile_focus", 0.0) == 2.0 {
        h.set_rate(1.0, plan.param("hostile_burst_max", 40.0) as u64);
    } else {
        h.set_rate(1.0, 30);
    }
    Some(Box::new(h))
}

fn c06_gen_max(seed: u64, run: u64, _thorough: bool) -> Plan {
    max_packet_plan("C06", "a_max_packet", seed, run)
}

pub fn c06() -> CheckDef {
    CheckDef {
        property: "C06",
        families: vec![
            Family { name: "a_max_packet", world: "A", weight: 1, gen: c06_gen_max, oracles: c06_oracles_sender, adversary: None, claims: None, keep_workload: true, custom: None,
                what: "a peer that advertises exactly one maximum-size packet (65536 fragments) of receive allocation; a small packet is outstanding when the maximum-size one is submitted, another follows (one run in 751)" },
            Family { name: "a_sender_respects", world: "A", weight: 300, gen: c06_gen_sender, oracles: c06_oracles_sender, adversary: None, claims: None, keep_workload: false, custom: None,
                what: "genuine pairs, receive limits 1 byte..6 MB, windows 1..4096, all ack schedules and losses: packets taken from the send queue and not yet below the accepted window base stay within the advertised (fragment-rounded) allocation and 4096 packets; the genuine receiver never discards a packet for lack of memory" },
            Family { name: "b_asymmetric_limits", world: "B", weight: 40, gen: c06_gen_limits, oracles: c06_oracles_limits, adversary: None, claims: None, keep_workload: false, custom: None,
                what: "real Client/Server on a clean link with unequal limits on the two sides (incompatible pairs included): a client whose max_packet_size exceeds the server's max_receive_alloc, or whose max_receive_alloc is below the server's max_packet_size, is refused with Config; the negotiated allocation each side uses is the one its peer advertised" },
            Family { name: "b_sender_respects", world: "B", weight: 120, gen: c06_gen_b, oracles: c06_oracles_sender, adversary: None, claims: None, keep_workload: false, custom: None,
                what: "real Client/Server with receive allocations 2 kB..4 MB: the limit each sender uses is the one its peer advertised in the handshake, and is respected" },
            Family { name: "a_hostile_stream", world: "A", weight: 300, gen: c06_gen_hostile_stream, oracles: c06_oracles_receiver, adversary: Some(c06_adv), claims: None, keep_workload: false, custom: None,
                what: "victim receiver (limit 1 byte..4 MB) against a hostile stream: fragment counts up to 65536, ids inside/outside the window, never-completing packets, inconsistent parent leads, any read cadence; heap bytes attributed to the victim (allocator measurement) stay within the rounded limit plus a constant bookkeeping budget" },
            Family { name: "b_limits_under_faults", world: "B", weight: 0, gen: c06_gen_limits_faults, oracles: c06_oracles_limits_faults, adversary: Some(c07_adv), claims: Some(c06_claims_limits_faults), keep_workload: true, custom: None,
                what: "real Client/Server handshakes under faults (lost, duplicated, reordered handshake frames, stale requests bearing a client's address with other nonces and limits, crash and restart on the same address; runs 4200-4399 and every 16th after them): the allocation and rate a connection is set up with are the ones its peer advertised in the handshake that completed, and the sender stays within them" },
            Family { name: "a_growing_packet", world: "A", weight: 0, gen: c06_gen_growing, oracles: c06_oracles_receiver, adversary: Some(c06_adv), claims: Some(c06_claims_growing), keep_workload: false, custom: None,
                what: "victim receiver (limit 20 kB .. 4 MB) against one packet of 52-100 % of its limit that arrives in full fragments in ascending order, one per frame, and never completes (runs 4000-4199 and every 16th after them): heap bytes attributed to the victim stay within the rounded limit plus the bookkeeping budget while the packet grows" },
            Family { name: "a_ack_queue_flood", world: "A", weight: 30, gen: c06_gen_flood, oracles: c06_oracles_receiver, adversary: Some(c06_adv), claims: None, keep_workload: false, custom: None,
                what: "victim with a 1472 B/s ceiling flooded with empty data frames whose ids are 32 apart, so that every frame opens a new acknowledgement group faster than they can be sent" },
        ],
        panic_is_violation: panics_in_packet_sender,
        hang_is_violation: false,
        quick_runs: 4400,
        thorough_runs: 50_000,
        rule: "one case = one simulated run; distinct = distinct run digest; non-trivial = at least 10 limit checks (sender half) or 10 heap measurements after hostile traffic (receiver half)",
        real_code: REAL_A,
        stubs: STUB_A,
        assumptions: vec![
            "receiver memory is measured by the harness allocator (requested bytes allocated inside calls into the victim, minus its fresh-connection baseline, its acknowledgement queue capacity and its own send buffer); bookkeeping budget 4096 bytes + 128 bytes per receive-window slot + limit/64",
            "the acknowledgement queue bound is 65536 groups: deliberately generous so that any fixed cap passes",
        ],
    }
}

// ------------------------------------------------------------------------------------------ C12

fn c12_gen(seed: u64, run: u64, thorough: bool) -> Plan {
    let mut r = Rng::keyed(&[seed, run, 0xc12]);
    let horizon = r.range(5, if thorough { 60 } else { 25 }) * 1_000_000;
    let sc = AScenario {
        near_wrap: run % 5 == 0,
        small_windows: run % 3 == 0,
        packets: r.range(50, if thorough { 1500 } else { 500 }),
        send_window_us: horizon * 2 / 3,
        fault_until_us: horizon,
        horizon_us: horizon,
        allow_flips: false,
        allow_stalls: true,
        phases: r.range(1, 3),
    };
    let mut plan = world_a_general("C12", "a_modes", seed, run, &sc, false);
    // flush budgets that cut packets: extra flush() calls right after sends
    let extra: Vec<TimedOp> = plan
        .timeline
        .iter()
        .filter_map(|t| match &t.op {
            Op::Send { ep, .. } if r.chance(0.15) => Some(TimedOp { t_us: t.t_us + r.below(3000), rank: r.u32() | 1, op: Op::Flush { ep: *ep } }),
            _ => None,
        })
        .collect();
    plan.timeline.extend(extra);
    // a quarter of the runs: now and then a second step() follows a step() within the same
    // millisecond (two application threads' ticks coinciding, a loop that steps once more after
    // handling what the first step returned), often with a flush() right behind it. The second
    // step is a step like any other: what was queued and not begun before it is stale after it
    if run % 4 == 1 {
        let mut r2 = Rng::keyed(&[seed, run, 0xc12_7717]);
        let p = *r2.pick(&[0.02, 0.1, 0.3]);
        let mut twin_tag = 800_000u32;
        let twins: Vec<TimedOp> = plan
            .timeline
            .iter()
            .filter_map(|t| match &t.op {
                Op::Step { ep } if r2.chance(p) => Some((t.t_us, *ep)),
                _ => None,
            })
            .collect::<Vec<_>>()
            .into_iter()
            .flat_map(|(t_us, ep)| {
                let dt = 2 + r2.below(300);
                let mut v = vec![TimedOp { t_us: t_us + dt, rank: r2.u32() | 1, op: Op::Step { ep } }];
                // ... and the application queues a TimeSensitive packet between the two
                if r2.chance(0.7) {
                    twin_tag += 1;
                    v.push(TimedOp { t_us: t_us + 1 + r2.below(dt - 1), rank: 0x4000_0000 + twin_tag, op: Op::Send { ep, to: None, ch: r2.below(4) as u8, mode: MODE_TIME_SENSITIVE, len: r2.range(12, 600) as u32, tag: twin_tag } });
                }
                if r2.chance(0.6) {
                    v.push(TimedOp { t_us: t_us + dt + 1 + r2.below(200), rank: r2.u32() | 1, op: Op::Flush { ep } });
                }
                v
            })
            .collect();
        plan.timeline.extend(twins);
    }
    plan.sort();
    plan
}
fn c12_gen_b(seed: u64, run: u64, thorough: bool) -> Plan {
    b_transport("C12", "b_modes", seed, run, thorough, false, false, false)
}
fn c12_oracles(_plan: &Plan) -> Vec<Box<dyn Oracle>> {
    with_states(vec![Box::new(ModeOracle::new("C12"))])
}

/// Long round trips, an idle sender, and a stretch during which every data frame is lost while
/// sync and ack frames get through: the retransmission back-off of a lone Reliable packet races
/// the sender's own sync timer.
fn c12_gen_idle_backoff(seed: u64, run: u64, _thorough: bool) -> Plan {
    let mut r = Rng::keyed(&[seed, run, 0xc12b]);
    let mut plan = Plan::new("C12", "a_idle_backoff", seed, run);
    plan.fate_seed = Some(crate::rng::key(&[seed, run, 0xfa7e]));
    let mut setup = ASetup::default_like();
    setup.packet_base = [r.u32() & 0xFFFFF, r.u32() & 0xFFFFF];
    setup.frame_base = [r.u32(), r.u32()];
    setup.keepalive = [if r.chance(0.5) { Some(r.range(500, 5000)) } else { None }, Some(5000)];
    plan.endpoints = setup.endpoints();
    plan.push(0, 0, Op::Create { ep: 0 });
    plan.push(0, 1, Op::Create { ep: 1 });
    let one_way = r.range(100_000, 600_000);
    plan.push(0, 2, Op::Link { from: None, to: None, rule: clean_rule(one_way) });
    let rtt = 2 * one_way;
    // warm-up on a clean link so that the RTT estimate is in place
    let mut tag = 0u32;
    let mut t = 50_000;
    for _ in 0..r.range(2, 8) {
        plan.push(t, 0x4000_0000 + tag, Op::Send { ep: 0, to: None, ch: r.below(3) as u8, mode: *r.pick(&[MODE_RELIABLE, MODE_PERSISTENT, MODE_UNRELIABLE]), len: r.range(12, 2000) as u32, tag });
        tag += 1;
        t += r.range(rtt / 2, 2 * rtt);
    }
    let mut t = t + 3 * rtt;
    for _ in 0..r.range(1, 4) {
        // a lone packet (or two), then data frames vanish for a while
        for _ in 0..r.range(1, 2) {
            plan.push(t, 0x4000_0000 + tag, Op::Send { ep: 0, to: None, ch: r.below(3) as u8, mode: *r.pick(&[MODE_RELIABLE, MODE_RELIABLE, MODE_PERSISTENT]), len: r.range(12, 1400) as u32, tag });
            tag += 1;
        }
        let mut lossy = clean_rule(one_way);
        lossy.drop_types = 1 << 10;
        lossy.drop_types_p = 1.0;
        plan.push(t.saturating_sub(1000), 2, Op::Link { from: Some(0), to: Some(1), rule: lossy });
        let outage = r.range(rtt, 14 * rtt);
        plan.push(t + outage, 2, Op::Link { from: Some(0), to: Some(1), rule: clean_rule(one_way) });
        t += outage + r.range(4 * rtt, 12 * rtt);
    }
    let horizon = t + 20 * rtt + 10_000_000;
    let p0 = r.range(5_000, 60_000);
    let p1 = r.range(5_000, 60_000);
    plan.push(r.below(p0), 3, Op::StepEvery { ep: 0, period_us: p0, until_us: horizon });
    plan.push(r.below(p1), 3, Op::StepEvery { ep: 1, period_us: p1, until_us: horizon });
    plan.end_us = horizon;
    plan.sort();
    plan
}

pub fn c12() -> CheckDef {
    CheckDef {
        property: "C12",
        families: vec![Family { name: "b_modes", world: "B", weight: 1, gen: c12_gen_b, oracles: c12_oracles, adversary: None, claims: None, keep_workload: false, custom: None,
            what: "the same wire-log oracle on real Client/Server traffic (default windows, several clients per server)" },
        Family { name: "a_idle_backoff", world: "A", weight: 1, gen: c12_gen_idle_backoff, oracles: c12_oracles, adversary: None, claims: None, keep_workload: false, custom: None,
            what: "round trips of 0.2-1.2 s, an otherwise idle sender, lone Reliable/Persistent packets whose data frames are all lost for 1-14 round trips while sync and ack frames get through: the retransmission back-off races the sender's sync timer; a Reliable packet may only be given up once the receiver has read all of it" },
        Family { name: "a_modes", world: "A", weight: 3, gen: c12_gen, oracles: c12_oracles, adversary: None, claims: None, keep_workload: false, custom: None,
            what: "mixed modes, packets cut across flushes, acks arriving between fragments, losses and duplicates; every (packet id, fragment id) occurrence on the wire is attributed to its submission: Unreliable/TimeSensitive at most once, TimeSensitive begun by the first step() after send(), nothing re-emitted after its acknowledgement was processed or after the receiver moved past the packet" }],
        panic_is_violation: no_panics,
        hang_is_violation: false,
        quick_runs: 8000,
        thorough_runs: 50_000,
        rule: "one case = one simulated run; distinct = distinct run digest; non-trivial = at least 10 fragments seen on the wire",
        real_code: REAL_A,
        stubs: STUB_A,
        assumptions: vec![
            "the retransmit-until-acknowledged half is decided as bounded liveness by C02 (Reliable) and by quiescence (Persistent): this check decides the at-most-once / never-again clauses on every emission",
            "'acknowledgement processed' is taken from the trace taps AckGroupAccepted (every frame whose bit an accepted group sets) and FrameAcked; a fragment may be marked acknowledged (tap FragmentAcked) only if such a frame carried it on the wire; 'receiver moved past' from the ack frames the sender read (their packet window base, validated against what was sent), not from the sender's own bookkeeping; an emission in a later call is a violation",
        ],
    }
}

// ------------------------------------------------------------------------------------------ C13

fn c13_gen(seed: u64, run: u64, thorough: bool) -> Plan {
    let mut r = Rng::keyed(&[seed, run, 0xc13]);
    let horizon = r.range(5, if thorough { 60 } else { 20 }) * 1_000_000;
    let sc = AScenario {
        near_wrap: false,
        small_windows: run % 4 == 0,
        packets: r.range(100, if thorough { 3000 } else { 1000 }),
        send_window_us: horizon / 3,
        fault_until_us: horizon,
        horizon_us: horizon,
        allow_flips: false,
        allow_stalls: true,
        phases: r.range(1, 3),
    };
    let mut plan = world_a_general("C13", "a_rate", seed, run, &sc, false);
    // repeated flushes per step and right around steps
    let extra: Vec<TimedOp> = plan
        .timeline
        .iter()
        .filter_map(|t| match &t.op {
            Op::Step { ep } if r.chance(0.2) => {
                let dt = if r.chance(0.5) { 0 } else { r.below(2000) };
                Some(TimedOp { t_us: if r.chance(0.5) { t.t_us + dt } else { t.t_us.saturating_sub(dt) }, rank: r.u32() | 1, op: Op::Flush { ep: *ep } })
            }
            _ => None,
        })
        .collect();
    plan.timeline.extend(extra);
    plan.sort();
    plan
}
fn c13_gen_b(seed: u64, run: u64, thorough: bool) -> Plan {
    b_transport("C13", "b_rate", seed, run, thorough, false, false, false)
}
/// World B, the ceiling across the life cycle of connections: a server with a standing backlog
/// for a client whose max_receive_rate is far below the server's max_send_rate; the connection is
/// dropped by the server application (or the client crashes) and the same address comes back at
/// once; stale connection requests that advertise other limits arrive from the client's address
/// shortly before it starts. Whatever the server sends to the address has to respect the ceiling
/// negotiated with the client that is there.
fn c13_gen_life(seed: u64, run: u64, thorough: bool) -> Plan {
    use crate::adversary::enc_syn;
    let mut r = Rng::keyed(&[seed, run, 0xc131_1fe]);
    let mut plan = Plan::new("C13", "b_rate_lifecycle", seed, run);
    plan.fate_seed = Some(crate::rng::key(&[seed, run, 0xfa7e]));
    let mut scfg = EndpointCfg::default();
    scfg.max_send_rate = *r.pick(&[200_000u64, 2_000_000, 50_000_000]);
    scfg.active_timeout_ms = *r.pick(&[5_000u64, 20_000]);
    let n_clients = r.range(1, 2) as usize;
    let rates: Vec<u64> = (0..n_clients).map(|_| r.log_range(3_000, 150_000)).collect();
    let rates2 = rates.clone();
    let topo = topology(&mut plan, &mut r, n_clients, 0, scfg.clone(), 64, 32, move |_, i| {
        let mut c = EndpointCfg::default();
        c.max_receive_rate = rates2[i];
        c
    });
    plan.push(0, 0, Op::Create { ep: 0 });
    let latency = r.log_range(200, 150_000);
    let mut rule = clean_rule(latency);
    if r.chance(0.4) {
        rule.drop_p = r.f64() * 0.05;
    }
    plan.push(0, 2, Op::Link { from: None, to: None, rule });
    let horizon = r.range(25, if thorough { 80 } else { 45 }) * 1_000_000;
    let mut tag = 0u32;
    for (i, &c) in topo.clients.iter().enumerate() {
        let mut t_create = r.range(100_000, 2_000_000);
        // a stale connection request from the client's own address (another nonce, other limits)
        // shortly before the client starts: its handshake is still pending when the client comes
        if r.chance(0.5) {
            t_create += r.range(0, 20_000_000);
            let t_stale = t_create.saturating_sub(r.log_range(50_000, 21_000_000));
            let rate = (rates[i] * *r.pick(&[4u64, 100, 100_000])).min(u32::MAX as u64) as u32;
            plan.push(t_stale, 0x8000_0002, Op::Inject { to: 0, from: c, bytes: enc_syn(3, r.u32() | 1, rate, 1_000_000, 1_000_000, 1472), twin: false });
        }
        plan.push(t_create, 1, Op::Create { ep: c });
        let period = r.range(3_000, 60_000);
        let mut lives = vec![(t_create, horizon)];
        // the connection is cut and the address comes back at once
        if r.chance(0.6) {
            let t_cut = t_create + r.range(3_000_000, 15_000_000);
            if t_cut + 5_000_000 < horizon {
                match r.below(3) {
                    0 => plan.push(t_cut, r.u32() | 1, Op::ServerDrop { ep: 0, to: c }),
                    1 => plan.push(t_cut, r.u32() | 1, Op::DisconnectNow { ep: 0, to: Some(c) }),
                    _ => (),
                }
                let t_gone = t_cut + r.below(300_000);
                let t_back = t_gone + r.log_range(20_000, 3_000_000);
                plan.push(t_gone, 1, Op::Destroy { ep: c });
                plan.push(t_back, 1, Op::Create { ep: c });
                lives = vec![(t_create, t_gone), (t_back, horizon)];
            }
        }
        for (a, b) in lives {
            plan.push(a + r.below(period), r.u32() | 1, Op::StepEvery { ep: c, period_us: period, until_us: b });
        }
        // a stream from the server that keeps a backlog standing at the client's ceiling
        let per_s = rates[i] * 2;
        let mut t = t_create + 200_000;
        while t < horizon - 3_000_000 && tag < 6000 {
            let len = r.range(200, 3000) as u32;
            plan.push(t, 0x4000_0000 + tag, Op::Send { ep: 0, to: Some(c), ch: (tag % 4) as u8, mode: *r.pick(&[MODE_RELIABLE, MODE_UNRELIABLE, MODE_PERSISTENT]), len, tag });
            tag += 1;
            t += (len as u64 * 1_000_000 / per_s).max(1000);
        }
    }
    plan.push(r.below(20_000), r.u32() | 1, Op::StepEvery { ep: 0, period_us: r.range(2_000, 50_000), until_us: horizon });
    plan.params.insert("short_ch".into(), 63.0);
    plan.end_us = horizon;
    plan.sort();
    plan
}
fn c13_oracles(_plan: &Plan) -> Vec<Box<dyn Oracle>> {
    with_states(vec![Box::new(RateOracle::new("C13"))])
}

/// A victim that owes far more acknowledgement groups than it may send: a connected peer floods
/// it with empty data frames whose ids are 32 apart (every frame opens a new group) and
/// acknowledges the victim's own traffic now and then, so that the victim has an RTT estimate.
fn c13_gen_ack_flood(seed: u64, run: u64, thorough: bool) -> Plan {
    let mut plan = c06_gen_hostile(seed, run, thorough, true);
    plan.property = "C13".into();
    plan.scenario = "a_ack_flood".into();
    let mut r = Rng::keyed(&[seed, run, 0xc13f]);
    let ceiling = *r.pick(&[1472u32, 5000, 20_000, 100_000, 1_000_000]);
    if let EndpointKind::Hc { spec, .. } = &mut plan.endpoints[0].kind {
        spec.tx_bandwidth_limit = ceiling;
    }
    // the link's delay gives the burst allowance ceiling x RTT some size
    let latency = r.range(1_000, 400_000);
    for t in plan.timeline.iter_mut() {
        if let Op::Link { rule, .. } = &mut t.op {
            rule.latency_us = latency;
        }
    }
    let horizon = r.range(10, 30) * 1_000_000;
    // the victim steps rarely (its credit refills to the full burst allowance in between, and
    // hundreds of groups pile up), the flood arrives in bursts of up to 2500 frames per step
    plan.timeline.retain(|t| t.t_us <= horizon && !matches!(t.op, Op::Step { ep: 0 } | Op::Flush { ep: 0 } | Op::StepEvery { ep: 0, .. }));
    plan.push(r.below(10_000), 3, Op::StepEvery { ep: 0, period_us: r.range(50_000, 1_000_000), until_us: horizon });
    plan.end_us = horizon;
    // the victim has traffic of its own
    let n_pk = r.range(10, 200);
    let mut w = Workload::sample(&mut r, n_pk, 3000);
    w.lead_pattern_p = 0.0;
    w.tiny_burst_p = 0.0;
    w.sends(&mut r, &mut plan, 0, None, 100_000, 2_000_000, 0);
    // the flood begins once the victim has exchanged some traffic (and holds an RTT estimate)
    plan.params.insert("hostile_start_us".into(), r.range(3_000_000, 6_000_000) as f64);
    plan.params.insert("flood_with_acks".into(), 1.0);
    plan.params.insert("hostile_max".into(), r.range(20_000, 120_000) as f64);
    plan.sort();
    plan
}

/// A backlogged sender at a low ceiling (its credit is overdrawn most of the time) that steps
/// every 1-20 ms while its connected peer sends it a sync frame before almost every step: each
/// asks for an acknowledgement in reply, and the replies have to wait for credit like anything
/// else.
fn c13_gen_sync_flood(seed: u64, run: u64, thorough: bool) -> Plan {
    let mut plan = c06_gen_hostile(seed, run, thorough, true);
    plan.property = "C13".into();
    plan.scenario = "a_sync_flood".into();
    let mut r = Rng::keyed(&[seed, run, 0xc135]);
    let ceiling = *r.pick(&[1472u32, 1472, 3000, 8000, 30_000]);
    if let EndpointKind::Hc { spec, .. } = &mut plan.endpoints[0].kind {
        spec.tx_bandwidth_limit = ceiling;
        spec.tx_alloc_limit = spec.tx_alloc_limit.max(200_000);
    }
    let latency = r.range(200, 50_000);
    for t in plan.timeline.iter_mut() {
        if let Op::Link { rule, .. } = &mut t.op {
            rule.latency_us = latency;
        }
    }
    let horizon = r.range(8, 20) * 1_000_000;
    plan.timeline.retain(|t| t.t_us <= horizon && !matches!(t.op, Op::Step { ep: 0 } | Op::Flush { ep: 0 } | Op::StepEvery { ep: 0, .. }));
    plan.push(r.below(10_000), 3, Op::StepEvery { ep: 0, period_us: r.range(1_000, 20_000), until_us: horizon });
    plan.end_us = horizon;
    // a backlog that lasts the whole run at this ceiling
    let n_pk = (ceiling as u64 * 25 / 1000).max(30);
    let mut w = Workload::sample(&mut r, n_pk, 3000);
    w.lead_pattern_p = 0.0;
    w.tiny_burst_p = 0.0;
    w.sends(&mut r, &mut plan, 0, None, 100_000, 1_000_000, 0);
    plan.params.insert("hostile_start_us".into(), r.range(2_000_000, 4_000_000) as f64);
    plan.params.insert("hostile_focus".into(), 6.0);
    plan.params.insert("hostile_max".into(), r.range(20_000, 60_000) as f64);
    plan.sort();
    plan
}
fn c13_adv_sync(plan: &Plan) -> Option<Box<dyn Adversary>> {
    let mut h = Hostile::new(plan, vec![(0, 1)]);
    h.set_rate(0.9, 2);
    Some(Box::new(h))
}

fn c13_adv(plan: &Plan) -> Option<Box<dyn Adversary>> {
    let mut h = Hostile::new(plan, vec![(0, 1)]);
    h.set_rate(1.0, 2500);
    Some(Box::new(h))
}

pub fn c13() -> CheckDef {
    CheckDef {
        property: "C13",
        families: vec![Family { name: "b_rate", world: "B", weight: 2, gen: c13_gen_b, oracles: c13_oracles, adversary: None, claims: None, keep_workload: false, custom: None,
            what: "real Client/Server: ceiling = min(local max_send_rate, peer max_receive_rate) from the two endpoint configurations" },
        Family { name: "b_rate_lifecycle", world: "B", weight: 1, gen: c13_gen_life, oracles: c13_oracles, adversary: None, claims: None, keep_workload: false, custom: None,
            what: "a server (max_send_rate 0.2-50 MB/s) with a standing backlog for 1-2 clients whose max_receive_rate is 3-150 kB/s; the connection is cut (Server::drop, disconnect_now, client crash) and the same address is back within 0.02-3 s; stale connection requests advertising 4-100000 times the client's rate arrive from its address up to 21 s before it starts: everything the server sends to the address is held against the ceiling negotiated with the client that is there" },
        Family { name: "a_ack_flood", world: "A", weight: 1, gen: c13_gen_ack_flood, oracles: c13_oracles, adversary: Some(c13_adv), claims: None, keep_workload: false, custom: None,
            what: "a sender with traffic of its own and a ceiling of 1472 B/s..1 MB/s whose connected peer floods it with empty data frames 32 ids apart (every frame opens a new acknowledgement group: hundreds of groups owed per flush) and acknowledges some of its frames; link delays up to 0.4 s so that the burst allowance ceiling x RTT has some size" },
        Family { name: "a_sync_flood", world: "A", weight: 1, gen: c13_gen_sync_flood, oracles: c13_oracles, adversary: Some(c13_adv_sync), claims: None, keep_workload: false, custom: None,
            what: "a backlogged sender at a ceiling of 1472 B/s..30 kB/s that steps every 1-20 ms while its connected peer sends it a sync frame before almost every step (each asks for an acknowledgement in reply) and acknowledges some of its frames" },
        Family { name: "a_rate", world: "A", weight: 6, gen: c13_gen, oracles: c13_oracles, adversary: None, claims: None, keep_workload: false, custom: None,
            what: "ceilings 1472 B/s..50 MB/s on either side, backlogs of hundreds to thousands of packets, cadences from several flushes per step to seconds between steps, pauses, loss and feedback patterns; every window of data/sync/ack frames is checked against ceiling x (duration + largest RTT estimate held) + 1472" }],
        panic_is_violation: no_panics,
        hang_is_violation: false,
        quick_runs: 6000,
        thorough_runs: 50_000,
        rule: "one case = one simulated run; distinct = distinct run digest; non-trivial = at least 20 frames emitted",
        real_code: REAL_A,
        stubs: STUB_A,
        assumptions: vec![
            "handshake and disconnect frames are connection management and not part of the credit scheme: excluded",
            "all windows of <= 256 frames are checked exactly with the largest RTT estimate held inside the window; longer windows by a running-minimum scan with the run-wide largest estimate (both implied by the property)",
            "times are the sender's own (possibly skewed) clock",
        ],
    }
}


// ------------------------------------------------------------------------------------------ C14

/// World U: the rate computer alone against arbitrary feedback histories.
fn c14_gen_u(seed: u64, run: u64, thorough: bool) -> Plan {
    gen_u("C14", seed, run, thorough)
}
/// The same histories under C03: whatever acknowledgements a peer sends amount to some sequence
/// of feedback reports; none may keep step() from returning (ceilings there also include what a
/// hostile handshake can advertise: 0, 1, 22, 23).
fn c03_gen_u(seed: u64, run: u64, thorough: bool) -> Plan {
    gen_u("C03", seed, run, thorough)
}
fn gen_u(property: &'static str, seed: u64, run: u64, thorough: bool) -> Plan {
    let mut r = Rng::keyed(&[seed, run, 0xc14]);
    let mut plan = Plan::new(property, "u_feedback", seed, run);
    let ceiling = match r.below(5) {
        0 => if property == "C03" { *r.pick(&[0u32, 1, 22, 23, 100, 1472]) } else { 1472 },
        1 => r.log_range(1472, 100_000) as u32,
        2 => 2_000_000,
        3 => r.log_range(100_000, 4_000_000_000) as u32,
        _ => u32::MAX,
    };
    plan.endpoints = vec![EndpointSpec { kind: EndpointKind::Rate { max_send_rate: ceiling }, addr: hc_addr(0), clock_ppm: 1_000_000, echo: false, nonces: Vec::new() }];
    plan.push(0, 0, Op::Create { ep: 0 });
    let n = r.range(5, if thorough { 400 } else { 150 });
    let mut t = r.below(1_000_000);
    // loss history shape: monotone, jumping, or zero after non-zero
    // (4, 5: loss rates over the whole logarithmic range down to 1e-10, held or creeping upwards by
    // less than a millionth per report - what a long loss-free history with one loss event gives)
    let shape = r.below(6);
    let mut p = 0.0f64;
    let base_rtt = r.log_range(1, 60_000);
    // "climb": reports about one round trip apart that allow the rate to double every time, so
    // that slow start gets far before the first loss is reported
    let climb = r.chance(0.3);
    let log_p = |r: &mut Rng| 10f64.powf(-10.0 * r.f64());
    for _ in 0..n {
        t += if climb && r.chance(0.85) { r.range(base_rtt * 1000, base_rtt * 3000 + 1000) } else { 0 };
        t += match if climb { r.below(3) } else { r.below(8) } {
            0 => 0,
            1 => r.range(1, 1000),
            2 | 3 => r.range(1000, 100_000),
            4 | 5 => r.range(100_000, 2_000_000),
            6 => r.range(2_000_000, 30_000_000),
            _ => r.range(30_000_000, 600_000_000),
        };
        match if climb { r.range(4, 9) } else { r.below(10) } {
            0..=2 => plan.push(t, 1, Op::RateSent { ep: 0 }),
            3..=5 => plan.push(t, 1, Op::RateStep { ep: 0, fb: None }),
            _ => {
                p = match shape {
                    4 => {
                        if p == 0.0 {
                            if r.chance(0.15) { log_p(&mut r) } else { 0.0 }
                        } else if r.chance(0.1) {
                            log_p(&mut r)
                        } else {
                            p
                        }
                    }
                    5 => {
                        if p == 0.0 {
                            if r.chance(0.15) { log_p(&mut r) } else { 0.0 }
                        } else {
                            (p + 1e-6 * r.f64() * r.f64()).min(1.0)
                        }
                    }
                    0 => (p + r.f64() * 0.02).min(1.0),
                    1 => {
                        if r.chance(0.3) {
                            *r.pick(&[0.0, 1e-6, 1e-4, 0.01, 0.1, 0.5, 1.0])
                        } else {
                            p
                        }
                    }
                    2 => {
                        if r.chance(0.2) {
                            0.0
                        } else {
                            (p + r.f64() * 0.05).min(1.0)
                        }
                    }
                    _ => r.f64() * r.f64(),
                };
                let rtt = match r.below(6) {
                    0 => 0,
                    1 => r.range(0, 5),
                    2 | 3 => (base_rtt as f64 * (0.5 + r.f64())) as u64,
                    4 => r.log_range(1, 60_000),
                    _ => base_rtt,
                };
                let rate = match if climb { r.range(1, 4) } else { r.below(6) } {
                    0 => 0,
                    1 => u32::MAX,
                    2 => r.u32(),
                    _ => r.log_range(1, 50_000_000) as u32,
                };
                plan.push(t, 1, Op::RateStep { ep: 0, fb: Some((rtt, rate, p, r.chance(0.4))) });
            }
        }
    }
    plan.end_us = t + 1;
    plan.sort();
    plan
}

/// Worlds A: the histories a real receiver produces (loss, blackouts, RTT steps).
fn c14_gen_a(seed: u64, run: u64, thorough: bool) -> Plan {
    let mut r = Rng::keyed(&[seed, run, 0xc14]);
    let horizon = r.range(8, if thorough { 90 } else { 30 }) * 1_000_000;
    let sc = AScenario {
        near_wrap: false,
        small_windows: run % 4 == 0,
        packets: r.range(100, if thorough { 3000 } else { 800 }),
        send_window_us: horizon * 2 / 3,
        fault_until_us: horizon,
        horizon_us: horizon,
        allow_flips: false,
        allow_stalls: true,
        phases: r.range(2, 5),
    };
    world_a_general("C14", "a_real_feedback", seed, run, &sc, false)
}
fn c14_oracles(_plan: &Plan) -> Vec<Box<dyn Oracle>> {
    with_states(vec![Box::new(RfcOracle::new("C14"))])
}

fn c14_gen_b(seed: u64, run: u64, thorough: bool) -> Plan {
    let mut plan = b_transport("C14", "b_configured_ceiling", seed, run, thorough, false, false, false);
    // "effectively unlimited" ceilings on either side: 2^32 - 1, 2^32, a little more
    let mut r = Rng::keyed(&[seed, run, 0xb14]);
    for e in plan.endpoints.iter_mut() {
        if let EndpointKind::Client { cfg, .. } | EndpointKind::Server { cfg, .. } = &mut e.kind {
            if r.chance(0.3) {
                cfg.max_send_rate = *r.pick(&[u32::MAX as u64, 1 << 32, (1 << 32) + 4096, 1 << 40]);
            }
        }
    }
    plan
}

pub fn c14() -> CheckDef {
    CheckDef {
        property: "C14",
        families: vec![
            Family { name: "u_feedback", world: "U", weight: 60, gen: c14_gen_u, oracles: c14_oracles, adversary: None, claims: None, keep_workload: false, custom: None,
                what: "the rate computer alone: sequences of frame-sent / step / step-with-feedback with gaps 0 ms..10 min, RTT samples 0..60 s, receive rates 0..2^32-1, loss rates 0..1 (monotone, jumping, zero after non-zero), rate-limited flag, ceilings 1472..2^32-1" },
            Family { name: "b_configured_ceiling", world: "B", weight: 1, gen: c14_gen_b, oracles: c14_oracles, adversary: None, claims: None, keep_workload: false, custom: None,
                what: "real Client/Server with asymmetric rate configurations: the same bound evaluator, with a client's ceiling taken from the two endpoint configurations (min of its max_send_rate and the server's max_receive_rate) rather than from the connection's own field" },
            Family { name: "a_real_feedback", world: "A", weight: 20, gen: c14_gen_a, oracles: c14_oracles, adversary: None, claims: None, keep_workload: false, custom: None,
                what: "two half connections under loss, blackouts and stalls: the feedback histories a real uflow receiver produces" },
        ],
        panic_is_violation: panics_in_rate_code,
        hang_is_violation: true,
        quick_runs: 40_000,
        thorough_runs: 1_500_000,
        rule: "one case = one simulated run (World U: 5..150 operations on the rate computer); distinct = distinct run digest; non-trivial = at least 3 rate updates (feedback or no-feedback expiry) checked",
        real_code: "SendRateComp, RecvRateSet (World U); the whole HalfConnection in World A",
        stubs: "World U: everything but the rate computer (the harness is the rest of the sender: it supplies now_ms, frame-sent notifications and feedback reports)",
        assumptions: vec![
            "the independent evaluator uses the RFC 5348 throughput equation in f64 with t_RTO = 4R and s = 1472; one byte per second of tolerance for integer truncation",
            "x_before / x_after / RTT before and after are read by the Feedback and NoFeedbackExpired trace taps; the probe after every call checks that nothing else moves the rate",
        ],
    }
}


// ------------------------------------------------------------------------------------------ C15

fn c15_gen(seed: u64, run: u64, thorough: bool) -> Plan {
    let mut r = Rng::keyed(&[seed, run, 0xc15]);
    let horizon = r.range(5, if thorough { 60 } else { 25 }) * 1_000_000;
    let sc = AScenario {
        near_wrap: run % 5 == 0,
        small_windows: run % 3 == 0,
        packets: r.range(50, if thorough { 1500 } else { 500 }),
        send_window_us: horizon * 2 / 3,
        fault_until_us: horizon,
        horizon_us: horizon,
        allow_flips: false,
        allow_stalls: true,
        phases: r.range(1, 3),
    };
    let mut plan = world_a_general("C15", "a_twin_acks", seed, run, &sc, false);
    // (no receive-buffer limit here: the extra frames of one execution would push genuine ones
    // out of the buffer, which is the network's doing and not the sender's)
    plan.timeline.retain(|t| !matches!(t.op, Op::SockCap { .. }));
    // a few packets of 33..70 fragments (their acknowledgement flags span more than one word's
    // half) where the peer's allocation admits them
    let limit = match &plan.endpoints[0].kind { EndpointKind::Hc { spec, .. } => spec.tx_alloc_limit, _ => 0 };
    if limit >= 110_000 {
        let mut left = r.range(1, 3);
        for t in plan.timeline.iter_mut() {
            if let Op::Send { ep: 0, len, mode, .. } = &mut t.op {
                if left > 0 && r.chance(0.05) {
                    *len = (r.range(33, 70) * FRAG + r.range(1, FRAG - 1)) as u32;
                    *mode = *r.pick(&[MODE_RELIABLE, MODE_PERSISTENT]);
                    left -= 1;
                }
            }
        }
    }
    plan.adversary = "ack_forger".into();
    plan.params.insert("twin_sender".into(), 0.0);
    plan.params.insert("forge_max".into(), r.range(10, 400) as f64);
    plan
}
fn c15_adv(plan: &Plan) -> Option<Box<dyn Adversary>> {
    Some(Box::new(AckForger::new(plan, 0, 1)))
}
fn c15_oracles_unused(_plan: &Plan) -> Vec<Box<dyn Oracle>> {
    Vec::new()
}

pub fn c15() -> CheckDef {
    CheckDef {
        property: "C15",
        families: vec![Family { name: "a_twin_acks", world: "A", weight: 1, gen: c15_gen, oracles: c15_oracles_unused, adversary: Some(c15_adv), claims: None, keep_workload: true, custom: Some(twin_run),
            what: "twin runs: the same plan with and without extra ack frames delivered to one sender - groups over known frames with the wrong parity, groups touching only unknown frames (beyond the next id / behind the log), exact copies of genuine ack frames replayed 1 us..2 min after the original was consumed, genuine groups re-packed into a new frame; the window-base fields equal what the sender already holds" }],
        panic_is_violation: no_panics,
        hang_is_violation: false,
        quick_runs: 6000,
        thorough_runs: 40_000,
        rule: "one case = one pair of simulated runs (baseline and twin, same seed so nonces and fates coincide); distinct = distinct combined digest; non-trivial = at least 3 extra ack frames reached the sender and at least 20 of its calls were compared",
        real_code: REAL_A,
        stubs: STUB_A,
        assumptions: vec![
            "compared after every call into the sender: the bytes of every frame it emits and its probe (RTT estimate, RTO, allowed rate, loss rate, no-feedback timer, queue lengths, window ids, credit)",
            "a replayed or re-packed acknowledgement is only injected after the original has certainly been consumed by the sender; forged groups over unknown frames keep every set bit outside the sender's frame log",
        ],
    }
}



// ------------------------------------------------------------------------------------------ C07

fn c07_gen_faulty(seed: u64, run: u64, thorough: bool) -> Plan {
    with_socket_faults(world_b_handshake("C07", "b_handshake_faults", seed, run, thorough, false), seed, run)
}
fn c07_gen_clean(seed: u64, run: u64, thorough: bool) -> Plan {
    world_b_handshake("C07", "b_handshake_clean", seed, run, thorough, true)
}
fn c07_oracles(plan: &Plan) -> Vec<Box<dyn Oracle>> {
    with_states(vec![
        Box::new(HandshakeOracle::new("C07")),
        // established connections are not reset or replaced: delivery stays in order, exactly once
        Box::new(TransportOracle::new("C07", TransportClauses { order: true, ..Default::default() }, plan)),
        Box::new(EventAutomaton::new("C07")),
    ])
}
fn c07_adv(plan: &Plan) -> Option<Box<dyn Adversary>> {
    if plan.adversary.is_empty() {
        None
    } else {
        Some(Box::new(HandshakeForger::new(plan)))
    }
}

pub fn c07() -> CheckDef {
    CheckDef {
        property: "C07",
        families: vec![
            Family { name: "b_handshake_faults", world: "B", weight: 3, gen: c07_gen_faulty, oracles: c07_oracles, adversary: Some(c07_adv), claims: None, keep_workload: true, custom: None,
                what: "1-6 clients arriving within 3 s, loss/dup/reorder aimed at SYN, SYN-ACK, ACK and error frames, forged handshake frames from spoofed client and server addresses with nonces that differ from the genuine ones, replays of genuine handshake frames up to 20 s later, incompatible configurations, wrong-version SYNs, client crash and restart on the same address, a few reliable packets per connection" },
            Family { name: "b_handshake_clean", world: "B", weight: 1, gen: c07_gen_clean, oracles: c07_oracles, adversary: Some(c07_adv), claims: None, keep_workload: false, custom: None,
                what: "same population on a link that loses only a random subset of the first three datagrams of each handshake direction, or the first 4-10 of the server's 11 SYN-ACK transmissions (during which the server application may drop() the pending handshake, so that the client's next SYN starts it again): incompatible configurations must be refused with the matching error, compatible ones must connect on BOTH sides (retries of SYN, SYN-ACK and ACK complete the handshake), stay connected, and agree on sequence numbers and limits" },
        ],
        panic_is_violation: no_panics,
        hang_is_violation: false,
        quick_runs: 6000,
        thorough_runs: 30_000,
        rule: "one case = one simulated run; distinct = distinct run digest; non-trivial = at least one Connect was checked against the nonces on the wire or one refusal was checked",
        real_code: REAL_B,
        stubs: STUB_B,
        assumptions: vec![
            "the harness reads every datagram on the wire, so it knows each side's genuine nonce; forged nonces are drawn to differ from the genuine one (an off-path attacker cannot know it)",
            "wrong-version SYNs come from a raw socket (a real Client always sends the current version)",
            "spoofed Disconnect frames are not injected: they carry no nonce by design and are outside the statement (handshake frames)",
        ],
    }
}

// ------------------------------------------------------------------------------------------ C08

fn c08_gen(seed: u64, run: u64, thorough: bool) -> Plan {
    with_socket_faults(world_b_lifecycle("C08", "b_lifecycle", seed, run, thorough), seed, run)
}
fn c08_oracles(_plan: &Plan) -> Vec<Box<dyn Oracle>> {
    with_states(vec![Box::new(EventAutomaton::new("C08"))])
}

pub fn c08() -> CheckDef {
    CheckDef {
        property: "C08",
        families: vec![Family { name: "b_lifecycle", world: "B", weight: 1, gen: c08_gen, oracles: c08_oracles, adversary: None, claims: None, keep_workload: false, custom: None,
            what: "1-4 clients, random interleavings of send / disconnect / disconnect_now / Server::drop / step / flush on both endpoints, client crash and restart, loss and duplication aimed at handshake and disconnect frames, blackouts, active timeouts 1-20 s racing the disconnect retries, skewed clocks, stalls, stray handshake frames (foreign versions, other nonces, incompatible limits, stray ACKs) from the clients' own addresses during the connection's life" }],
        panic_is_violation: no_panics,
        hang_is_violation: false,
        quick_runs: 8000,
        thorough_runs: 40_000,
        rule: "one case = one simulated run; distinct = distinct run digest; non-trivial = at least one Connect event",
        real_code: REAL_B,
        stubs: STUB_B,
        assumptions: vec!["Server::drop() by the application closes the stream silently, as documented", "with enable_handshake_errors the server reports failed handshakes of addresses that have no established connection; those are not terminal events of a connection"],
    }
}

// ------------------------------------------------------------------------------------------ C17

fn c17_gen_faulty(seed: u64, run: u64, thorough: bool) -> Plan {
    if run >= 6000 {
        return world_b_limits_long("C17", "b_limits_faults", seed, run);
    }
    with_socket_faults(world_b_limits("C17", "b_limits_faults", seed, run, thorough, false), seed, run)
}
fn c17_gen_clean(seed: u64, run: u64, thorough: bool) -> Plan {
    world_b_limits("C17", "b_limits_clean", seed, run, thorough, true)
}
fn c17_oracles(_plan: &Plan) -> Vec<Box<dyn Oracle>> {
    with_states(vec![Box::new(LimitsOracle::new("C17"))])
}

pub fn c17() -> CheckDef {
    CheckDef {
        property: "C17",
        families: vec![
            Family { name: "b_limits_clean", world: "B", weight: 1, gen: c17_gen_clean, oracles: c17_oracles, adversary: None, claims: None, keep_workload: false, custom: None,
                what: "max_active 1..6 x max_total 1..12 swept by run index, 1-12 clients arriving in two bursts (latency up to 300 ms so that many SYNs precede the first ACK; the second burst arrives while connections of the first are ending or lingering), connections ending by disconnect from either side, Server::drop, client crash, disconnect followed by Server::drop of the closing/closed entry, and handshakes abandoned right after the SYN; loss-free link: refused clients must see ServerFull, and a late client must be admitted once capacity has returned" },
            Family { name: "b_limits_faults", world: "B", weight: 1, gen: c17_gen_faulty, oracles: c17_oracles, adversary: None, claims: None, keep_workload: false, custom: None,
                what: "same with loss/dup/reorder of handshake and disconnect frames: the two counters must hold at every step" },
        ],
        panic_is_violation: no_panics,
        hang_is_violation: false,
        quick_runs: 7000,
        thorough_runs: 30_000,
        rule: "one case = one simulated run; limit pair = f(run index); distinct = distinct run digest; non-trivial = at least 10 server probes and one connected client",
        real_code: REAL_B,
        stubs: STUB_B,
        assumptions: vec!["established = between the server's Connect event and its terminal event or drop(); tracked = entries in the server's client table (probe)"],
    }
}

// ------------------------------------------------------------------------------------------ C18

fn c18_gen(seed: u64, run: u64, thorough: bool) -> Plan {
    world_b_spoof("C18", "b_spoof", seed, run, thorough)
}
fn c18_gen_long(seed: u64, run: u64, thorough: bool) -> Plan {
    world_b_spoof_long("C18", "b_spoof_long", seed, run, thorough)
}
fn c18_adv(plan: &Plan) -> Option<Box<dyn Adversary>> {
    Some(Box::new(NonceGuesser::new(plan)))
}
fn c18_oracles(_plan: &Plan) -> Vec<Box<dyn Oracle>> {
    with_states(vec![Box::new(AmplificationOracle::new("C18"))])
}

pub fn c18() -> CheckDef {
    CheckDef {
        property: "C18",
        families: vec![Family { name: "b_spoof_long", world: "B", weight: 1, gen: c18_gen_long, oracles: c18_oracles, adversary: None, claims: None, keep_workload: false, custom: None,
            what: "abandoned handshakes (one valid SYN, never answered) watched for 300 s on servers whose silence timeout is 20 s..600 s, with and without a trickle (every 3-19 s) of stray data, sync or ack frames from the same address" },
            Family { name: "b_spoof", world: "B", weight: 7, gen: c18_gen, oracles: c18_oracles, adversary: Some(c18_adv), claims: None, keep_workload: false, custom: None,
            what: "1-5 spoofable addresses that never return a nonce: valid 1472-byte SYNs (repeated, same or fresh nonce), undersized CRC-valid SYNs (length swept over 5..1471 across runs), wrong-version, configuration-refused and capacity-refused SYNs, stray frames of every other type, bursts of 80-400 small stray frames of one type right after a valid SYN, 'promote me' attempts (a SYN with a self-chosen nonce followed by data / ack / sync frames numbered with it), an attacker that extrapolates the server's next nonce from the two its own addresses were handed and acknowledges in the name of a third address, a server application that sends 20 kB to every address it believes connected every few seconds, gaps up to 25 s (beyond the handshake timeout); servers with and without free capacity; the violation is the payload-byte balance, the balance with 28 header bytes per datagram is reported as a measurement" }],
        panic_is_violation: no_panics,
        hang_is_violation: false,
        quick_runs: 10_600,
        thorough_runs: 60_000,
        rule: "one case = one simulated run; distinct = distinct run digest; non-trivial = at least one datagram from an unverified address reached the server",
        real_code: REAL_B,
        stubs: STUB_B,
        assumptions: vec!["bytes received = datagrams placed in the server's socket buffer; bytes sent = datagrams the server handed to its socket for that address"],
    }
}


// ------------------------------------------------------------------------------------------ C09

fn c09_gen(seed: u64, run: u64, thorough: bool) -> Plan {
    world_b_disconnect("C09", "b_disconnect", seed, run, thorough)
}
fn c09_oracles(_plan: &Plan) -> Vec<Box<dyn Oracle>> {
    with_states(vec![Box::new(DisconnectOracle::new("C09")), Box::new(EventAutomaton::new("C09"))])
}

pub fn c09() -> CheckDef {
    CheckDef {
        property: "C09",
        families: vec![Family { name: "b_disconnect", world: "B", weight: 1, gen: c09_gen, oracles: c09_oracles, adversary: None, claims: None, keep_workload: false, custom: None,
            what: "0-200 packets of mixed modes queued (30 %: followed by 1-4 Reliable packets without payload), then disconnect() (70 %) or disconnect_now() from the client or the server; loss/dup/reorder/corruption of data, ack, disconnect and disconnect-ack frames; total or one-way blackout starting right after the call (sometimes healing); the peer passive or (15 %) disconnecting as well; active timeouts 2-20 s" }],
        panic_is_violation: no_panics,
        hang_is_violation: false,
        quick_runs: 10_000,
        thorough_runs: 40_000,
        rule: "one case = one simulated run; distinct = distinct run digest; non-trivial = a flush guarantee or a termination deadline was evaluated",
        real_code: REAL_B,
        stubs: STUB_B,
        assumptions: vec![
            "deadline of the caller: first Disconnect frame on the wire + 22 s + 11 step periods + 1 s; deadline of the peer: max(that instant + 22 s, the last time it heard a data/ack/sync frame + its active timeout) + 2 step periods + 1 s (the peer learns of the disconnect from frames only)",
            "no clock skew in this scenario; when both sides disconnect no flush claim is made (as the statement says)",
        ],
    }
}

// ------------------------------------------------------------------------------------------ C10

fn c10_gen_silence(seed: u64, run: u64, thorough: bool) -> Plan {
    world_b_silence("C10", "b_silence", seed, run, thorough)
}
fn c10_gen_idle(seed: u64, run: u64, thorough: bool) -> Plan {
    world_b_idle("C10", "b_idle_keepalive", seed, run, thorough)
}
fn c10_gen_retry(seed: u64, run: u64, thorough: bool) -> Plan {
    world_b_retry("C10", "b_retry_budget", seed, run, thorough)
}
fn c10_oracles(_plan: &Plan) -> Vec<Box<dyn Oracle>> {
    with_states(vec![Box::new(TimeoutOracle::new("C10"))])
}

pub fn c10() -> CheckDef {
    CheckDef {
        property: "C10",
        families: vec![
            Family { name: "b_silence", world: "B", weight: 16, gen: c10_gen_silence, oracles: c10_oracles, adversary: None, claims: None, keep_workload: false, custom: None,
                what: "active timeouts 0.2-60 s chosen independently per side, keepalive on/off (0.1-30 s), the handshake loses its first k = 0..10 SYNs or SYN-ACKs (swept by run index), busy or idle connections, blackouts of 0.1-70 s in one or both directions, clocks skewed by +-2 % and jumping forward by 0.1-5 s, step periods 1-400 ms with jitter and stalls, a trickle of non-frame datagrams (several per step) at one endpoint; every Error(Timeout) and every step is checked against the endpoint's own clock" },
            Family { name: "b_retry_budget", world: "B", weight: 6, gen: c10_gen_retry, oracles: c10_oracles, adversary: None, claims: None, keep_workload: false, custom: None,
                what: "unanswered handshakes (no server, total blackout, SYN-ACKs lost) and disconnect_now() into a blackout: exactly 1 + 10 transmissions at least 2 s apart, Error(Timeout) no earlier than 22 s after the first" },
            Family { name: "b_idle_keepalive", world: "B", weight: 1, gen: c10_gen_idle, oracles: c10_oracles, adversary: None, claims: None, keep_workload: false, custom: None,
                what: "loss-free link, idle connection, keepalive interval such that max(interval, 2 s) + RTT + 2 step periods fits 1.25-4.25 times into the timeout: no timeout during 1-2 (thorough: 1-6) simulated hours" },
        ],
        panic_is_violation: no_panics,
        hang_is_violation: false,
        quick_runs: 4600,
        thorough_runs: 35_000,
        rule: "one case = one simulated run; k lost handshake frames = (run index / 2) mod 11; distinct = distinct run digest; non-trivial = at least 10 steps of an established connection were checked for promptness, or a retry budget was evaluated",
        real_code: REAL_B,
        stubs: STUB_B,
        assumptions: vec![
            "the harness mirrors only the definition: per endpoint, the local millisecond time of every step and which valid frames of which type that step read from which address; establishment itself counts as the first instant the peer was heard",
            "soundness counts data/ack/sync frames (the ones that prove the peer alive on this connection); promptness is only demanded when no valid frame of any type from the peer was read in that step",
        ],
    }
}

// ------------------------------------------------------------------------------------------ C11

fn c11_plan(scenario: &str, seed: u64, run: u64, thorough: bool, rate_recovery: bool) -> Plan {
    let mut r = Rng::keyed(&[seed, run, 0xc11]);
    let mut plan = Plan::new("C11", scenario, seed, run);
    plan.fate_seed = Some(crate::rng::key(&[seed, run, 0xfa7e]));
    let setup = ASetup::sample(&mut r, run % 6 == 0, run % 2 == 0);
    plan.endpoints = setup.endpoints();
    plan.push(0, 0, Op::Create { ep: 0 });
    plan.push(0, 1, Op::Create { ep: 1 });
    let latency = sample_latency(&mut r);
    plan.push(0, 2, Op::Link { from: None, to: None, rule: clean_rule(latency) });
    // warm-up traffic so that windows fill, then the fault
    let warm = r.range(300_000, 6_000_000);
    let fault_len = match r.below(4) {
        0 => r.range(100_000, 1_000_000),
        1 => r.range(1_000_000, 5_000_000),
        _ => r.range(5_000_000, if thorough { 40_000_000 } else { 19_000_000 }),
    };
    let heal = warm + fault_len;
    let kind = r.below(6);
    for (from, to) in [(0usize, 1usize), (1, 0)] {
        let mut rule = clean_rule(latency);
        match kind {
            0 => rule.blackout = true,
            1 => rule.blackout = from == 0,
            2 => rule.blackout = from == 1,
            3 => {
                // all acknowledgements lost for the period
                rule.drop_types = 1 << 12;
                rule.drop_types_p = 1.0;
            }
            4 => {
                // lasting change of the round-trip time by an order of magnitude
                rule.latency_us = if r.chance(0.5) { latency * 10 } else { (latency / 10).max(50) };
            }
            _ => {
                rule.drop_p = 0.5;
                rule.blackout = r.chance(0.3);
            }
        }
        plan.push(warm, 2, Op::Link { from: Some(from), to: Some(to), rule });
    }
    // heal: frames flow again; an RTT step stays in force (it is the new path), faults stop
    let healed_latency = if kind == 4 { if r.chance(0.5) { latency * 10 } else { (latency / 10).max(50) } } else { latency };
    plan.push(heal, 2, Op::Link { from: None, to: None, rule: clean_rule(healed_latency.min(2_000_000)) });
    plan.push(heal, 3, Op::Mark { name: "heal".into() });
    let mut short_ch = 0;
    let mut tiny_mode = 0;
    let mut bytes = [0u64; 2];
    for ep in 0..2 {
        let max_len = ((setup.alloc[1 - ep] + FRAG - 1) / FRAG * FRAG).min(20_000);
        let n = if rate_recovery { r.range(400, 1500) } else { r.range(20, 400) };
        let mut w = Workload::sample(&mut r, n, max_len);
        if ep == 0 {
            short_ch = w.short_ch;
            tiny_mode = w.tiny_mode;
        } else {
            w.channels = w.channels.max(short_ch + 1);
            w.short_ch = short_ch;
            w.tiny_mode = tiny_mode;
        }
        if rate_recovery && ep == 0 {
            w.mode_w = [0, 0, 1, 3];
            w.fixed_len = Some(max_len.min(1400) as u32);
        }
        if !rate_recovery || ep == 0 {
            // mostly before and during the fault: entire windows of frames/packets get lost
            w.sends(&mut r, &mut plan, ep, None, 0, heal, 0);
        }
        let cad = Cadence::sample(&mut r);
        cad.steps(&mut r, &mut plan, ep, 0, heal, 6000, true);
        let period = cad.period_us.clamp(1000, 200_000);
        plan.push(heal + r.below(period), r.u32() | 1, Op::StepEvery { ep, period_us: period, until_us: u64::MAX });
    }
    for t in plan.timeline.iter() {
        if let Op::Send { ep, len, .. } = &t.op {
            bytes[*ep] += *len as u64 + 14;
        }
    }
    plan.params.insert("short_ch".into(), short_ch as f64);
    if rate_recovery {
        // standing backlog, clean link, 600 s
        plan.params.insert("expect_rate_recovery".into(), 1.0);
        plan.params.insert("backlog_ep0".into(), 1.0);
        // keep the backlog standing: a steady trickle of new reliable data
        let mut t = heal;
        let mut tag = 500_000u32;
        while t < heal + 600_000_000 {
            plan.push(t, 0x4000_0000, Op::Send { ep: 0, to: None, ch: 1, mode: MODE_RELIABLE, len: 1400.min(((setup.alloc[1] + FRAG - 1) / FRAG * FRAG) as u32), tag });
            tag += 1;
            t += 250_000;
        }
        plan.end_us = heal + 600_000_000;
    } else {
        // probes of every mode after the last fault
        let t0 = heal + r.range(0, 3_000_000);
        let mut tag = PROBE_TAG;
        for ep in 0..2 {
            let cap = (((setup.alloc[1 - ep] + FRAG - 1) / FRAG * FRAG) as u32).min(3000);
            for mode in [MODE_RELIABLE, MODE_PERSISTENT, MODE_UNRELIABLE] {
                let len = r.range(12, cap.max(12) as u64) as u32;
                plan.push(t0 + r.below(1_000_000), 0x4000_0000 + (tag - PROBE_TAG), Op::Send { ep, to: None, ch: (ep as u8 + 2) % 64, mode, len, tag });
                tag += 1;
            }
            // TimeSensitive probes: re-submitted every second and flushed immediately
            for k in 0..60u64 {
                let t = t0 + k * 1_000_000 + ep as u64 * 1000;
                plan.push(t, 0x4000_0000 + (tag - PROBE_TAG), Op::Send { ep, to: None, ch: (ep as u8 + 3) % 64, mode: MODE_TIME_SENSITIVE, len: 40.min(cap), tag });
                plan.push(t, 0x5000_0000 + (tag - PROBE_TAG), Op::Flush { ep });
                tag += 1;
            }
        }
        plan.params.insert("expect_live".into(), 1.0);
        plan.params.insert("end_when_quiescent".into(), 1.0);
        let frames = (bytes[0].max(bytes[1]) / 1448 + 80).min(400);
        plan.end_us = heal + (900 + 128 * frames) * 1_000_000;
    }
    for t in plan.timeline.iter_mut() {
        if let Op::StepEvery { until_us, .. } = &mut t.op {
            *until_us = plan.end_us;
        }
    }
    plan.sort();
    plan
}
fn c11_gen_recover(seed: u64, run: u64, thorough: bool) -> Plan {
    c11_plan("a_blackout_recover", seed, run, thorough, false)
}
fn c11_gen_rate(seed: u64, run: u64, thorough: bool) -> Plan {
    c11_plan("a_rate_recovers", seed, run, thorough, true)
}
fn c11_gen_b(seed: u64, run: u64, thorough: bool) -> Plan {
    let mut plan = b_transport("C11", "b_blackout_recover", seed, run, thorough, true, false, false);
    // a blackout in the middle of the fault phase, placed after the handshake
    let mut r = Rng::keyed(&[seed, run, 0xb11]);
    let heal = plan.timeline.iter().find(|t| matches!(&t.op, Op::Mark { name } if name == "heal")).map(|t| t.t_us).unwrap_or(10_000_000);
    let t0 = r.range(1_500_000, heal.saturating_sub(1_000_000).max(1_500_001));
    let mut b = clean_rule(10_000);
    b.blackout = true;
    let dir = r.below(3);
    let (from, to) = match dir { 0 => (None, None), 1 => (Some(0usize), None), _ => (None, Some(0usize)) };
    plan.push(t0, 2, Op::Link { from, to, rule: b });
    plan.sort();
    plan
}
fn c11_oracles(plan: &Plan) -> Vec<Box<dyn Oracle>> {
    with_states(vec![
        Box::new(RecoveryOracle::new("C11")),
        Box::new(TransportOracle::new("C11", TransportClauses { reliable_live: true, ..Default::default() }, plan)),
    ])
}
fn c11_oracles_rate(_plan: &Plan) -> Vec<Box<dyn Oracle>> {
    with_states(vec![Box::new(RecoveryOracle::new("C11"))])
}

pub fn c11() -> CheckDef {
    CheckDef {
        property: "C11",
        families: vec![
            Family { name: "a_blackout_recover", world: "A", weight: 4, gen: c11_gen_recover, oracles: c11_oracles, adversary: None, claims: None, keep_workload: false, custom: None,
                what: "warm-up traffic, then a blackout of 0.1..19 s (40 s thorough) in one or both directions, or the loss of all acknowledgements, or 50 % loss, or a lasting x10 / /10 change of the round-trip time; small and default windows, exhausted allocation; after the last fault probe packets of every mode (TimeSensitive ones every second, flushed at once) must be delivered, everything Reliable delivered and the senders drained within T_live" },
            Family { name: "b_blackout_recover", world: "B", weight: 1, gen: c11_gen_b, oracles: c11_oracles, adversary: None, claims: None, keep_workload: false, custom: None,
                what: "through the public API with active_timeout_ms = 30 min (so that the silence timer, which is C10's business, cannot end the connection): faults and a blackout until the heal, then everything Reliable must arrive and the senders drain" },
            Family { name: "a_rate_recovers", world: "A", weight: 1, gen: c11_gen_rate, oracles: c11_oracles_rate, adversary: None, claims: None, keep_workload: false, custom: None,
                what: "same faults with a standing backlog; after 600 s on a clean link the allowed rate must have left the s/64 floor (>= min(ceiling, 10 x floor))" },
        ],
        panic_is_violation: no_panics,
        hang_is_violation: true,
        quick_runs: 1500,
        thorough_runs: 40_000,
        rule: "one case = one simulated run; distinct = distinct run digest; non-trivial = probes were submitted after the last fault (or the rate clause was evaluated at the end)",
        real_code: REAL_A,
        stubs: STUB_A,
        assumptions: vec![
            "no timeouts in World A, so the transport's own recovery is observed in isolation",
            "T_live = 900 s + 128 s per frame of backlog (the s/64 floor rate) after the last fault; runs end early at quiescence",
            "a call that never returns in this scenario is a C11 violation as well (confirmed in a child process)",
        ],
    }
}

// ------------------------------------------------------------------------------------------ C19

/// Late first acknowledgement (runs added later): a fast link (0.3-15 ms one way) that is dead
/// for the first 100-1100 ms and lossy for a second after that, several small Reliable packets
/// submitted a few milliseconds apart at the start (one frame each), frequent steps and extra flushes: the
/// first flights are resent under the initial 150 ms estimate, the first RTT sample is small,
/// entries scheduled under the old estimate wait in the resend queue; later the link is clean
/// and the connection is dropped at the end.
fn c19_gen_late_ack(seed: u64, run: u64) -> Plan {
    let mut r = Rng::keyed(&[seed, run, 0xc19_1a7e]);
    let mut plan = Plan::new("C19", "a_heap", seed, run);
    plan.fate_seed = Some(crate::rng::key(&[seed, run, 0xfa7e]));
    let setup = ASetup::default_like();
    plan.endpoints = setup.endpoints();
    plan.push(0, 0, Op::Create { ep: 0 });
    plan.push(0, 1, Op::Create { ep: 1 });
    let latency = r.log_range(300, 15_000);
    let t_heal = r.range(100_000, 1_100_000);
    let mut dead = clean_rule(latency);
    dead.blackout = true;
    match r.below(3) {
        0 => plan.push(0, 2, Op::Link { from: None, to: None, rule: dead }),
        1 => {
            plan.push(0, 2, Op::Link { from: Some(0), to: Some(1), rule: clean_rule(latency) });
            plan.push(0, 2, Op::Link { from: Some(1), to: Some(0), rule: dead });
        }
        _ => {
            plan.push(0, 2, Op::Link { from: Some(0), to: Some(1), rule: dead });
            plan.push(0, 2, Op::Link { from: Some(1), to: Some(0), rule: clean_rule(latency) });
        }
    }
    let mut lossy = clean_rule(latency);
    lossy.drop_p = *r.pick(&[0.2, 0.4, 0.6]);
    plan.push(t_heal, 2, Op::Link { from: None, to: None, rule: lossy });
    plan.push(t_heal + r.range(300_000, 1_500_000), 2, Op::Link { from: None, to: None, rule: clean_rule(latency) });
    let horizon = t_heal + r.range(1_000_000, 4_000_000);
    let mut tag = 0u32;
    let mut t = r.below(5_000);
    for _ in 0..r.range(2, 12) {
        // small packets a few milliseconds apart: one frame each, all within the initial credit
        plan.push(t, 0x4000_0000 + tag, Op::Send { ep: 0, to: None, ch: (tag % 3) as u8, mode: *r.pick(&[MODE_RELIABLE, MODE_RELIABLE, MODE_PERSISTENT]), len: r.range(12, 120) as u32, tag });
        tag += 1;
        t += r.range(1_000, 30_000);
    }
    // fresh packets right after the heal: their acknowledgements bring the first RTT sample while
    // the early packets wait for a deadline that was set under the initial estimate
    for _ in 0..r.range(1, 4) {
        plan.push(t_heal + r.below(150_000), 0x4000_0000 + tag, Op::Send { ep: 0, to: None, ch: (tag % 3) as u8, mode: MODE_RELIABLE, len: r.range(100, 1400) as u32, tag });
        tag += 1;
    }
    for ep in 0..2 {
        let period = r.range(2_000, 25_000);
        let mut ts = r.below(period);
        while ts < horizon {
            plan.push(ts, r.u32() | 1, Op::Step { ep });
            if r.chance(0.5) {
                plan.push(ts + r.below(period), r.u32() | 1, Op::Flush { ep });
            }
            ts += period;
        }
    }
    plan.end_us = horizon;
    plan.sort();
    plan
}

fn c19_gen(seed: u64, run: u64, thorough: bool) -> Plan {
    if run >= 8000 && run % 2 == 0 {
        return c19_gen_late_ack(seed, run);
    }
    let mut r = Rng::keyed(&[seed, run, 0xc19]);
    // short horizons: connections are dropped mid-transfer
    let horizon = r.range(1, if thorough { 30 } else { 12 }) * 1_000_000;
    let sc = AScenario {
        near_wrap: run % 5 == 0,
        small_windows: run % 3 == 0,
        packets: r.range(20, 300),
        send_window_us: horizon,
        fault_until_us: horizon,
        horizon_us: horizon,
        allow_flips: false,
        allow_stalls: true,
        phases: r.range(1, 3),
    };
    let mut plan = world_a_general("C19", "a_heap", seed, run, &sc, false);
    // multi-fragment sizes that are not a multiple of the fragment size, in skippable modes too
    for t in plan.timeline.iter_mut() {
        if let Op::Send { len, mode, .. } = &mut t.op {
            if r.chance(0.3) {
                *len = (r.range(1, 6) * FRAG + r.range(1, FRAG - 1)) as u32;
                if r.chance(0.5) {
                    *mode = *r.pick(&[MODE_UNRELIABLE, MODE_PERSISTENT]);
                }
            }
        }
    }
    // every seventh run: allocations large enough for packets of 65 and 129 fragments (one more
    // than a whole number of 64-bit flag words), in any mode
    if run % 7 == 3 {
        for e in plan.endpoints.iter_mut() {
            if let EndpointKind::Hc { spec, .. } = &mut e.kind {
                spec.tx_alloc_limit = spec.tx_alloc_limit.max(200_000);
                spec.rx_alloc_limit = spec.rx_alloc_limit.max(200_000);
            }
        }
        let mut left = r.range(1, 4);
        for t in plan.timeline.iter_mut() {
            if let Op::Send { len, .. } = &mut t.op {
                if left > 0 && r.chance(0.1) {
                    let frags = *r.pick(&[65u64, 65, 129, 64, 66]);
                    *len = ((frags - 1) * FRAG + r.range(1, FRAG)) as u32;
                    left -= 1;
                }
            }
        }
    }
    // every nineteenth run: endpoints configured for packets of several megabytes, and one or two
    // of them among the first packets (assembly blocks of 2-6 MiB: whatever the allocator or the
    // library does differently for large blocks; delivered, or dropped mid-transfer with the
    // connection)
    if run % 19 == 7 {
        for e in plan.endpoints.iter_mut() {
            if let EndpointKind::Hc { spec, .. } = &mut e.kind {
                spec.tx_alloc_limit = spec.tx_alloc_limit.max(8_000_000);
                spec.rx_alloc_limit = spec.rx_alloc_limit.max(8_000_000);
                spec.tx_bandwidth_limit = spec.tx_bandwidth_limit.max(20_000_000);
            }
        }
        let mut left = r.range(1, 2);
        for t in plan.timeline.iter_mut() {
            if let Op::Send { len, .. } = &mut t.op {
                if left > 0 && r.chance(0.3) {
                    *len = r.range(2_097_152 - 3000, 6_000_000) as u32;
                    left -= 1;
                }
            }
        }
    }
    // respect the allocation limits
    let limits: Vec<u64> = plan.endpoints.iter().map(|e| match &e.kind { EndpointKind::Hc { spec, .. } => (spec.tx_alloc_limit + FRAG - 1) / FRAG * FRAG, _ => 0 }).collect();
    for t in plan.timeline.iter_mut() {
        if let Op::Send { ep, len, .. } = &mut t.op {
            *len = (*len as u64).min(limits[*ep]) as u32;
        }
    }
    plan
}
/// World B: servers dropped with live clients, clients destroyed mid-transfer, Server::drop().
fn c19_gen_b(seed: u64, run: u64, thorough: bool) -> Plan {
    let mut plan = with_socket_faults(world_b_lifecycle("C19", "b_heap", seed, run, thorough), seed, run);
    let mut r = Rng::keyed(&[seed, run, 0xb19]);
    // larger, multi-fragment packets that are not multiples of the fragment size
    for t in plan.timeline.iter_mut() {
        if let Op::Send { len, .. } = &mut t.op {
            if r.chance(0.4) {
                *len = (r.range(1, 5) * FRAG + r.range(1, FRAG - 1)) as u32;
            }
        }
    }
    // sometimes the applications look only at the first few events of a step and drop the rest
    if r.chance(0.3) {
        plan.params.insert("partial_events_permille".into(), *r.pick(&[100.0, 500.0, 1000.0]));
    }
    // sometimes the server itself goes away while clients are connected
    if r.chance(0.3) {
        let t = r.range(3_000_000, plan.end_us.max(3_000_001));
        plan.push(t, 1, Op::Destroy { ep: 0 });
        plan.sort();
    }
    plan
}
/// A victim connection fed by a hostile connected peer: whatever arrives, blocks are released
/// with their own layout and the victim returns everything when it is dropped.
fn c19_gen_hostile(seed: u64, run: u64, thorough: bool) -> Plan {
    let mut plan = c06_gen_hostile(seed, run, thorough, false);
    plan.property = "C19".into();
    plan.scenario = "a_heap_hostile".into();
    let mut r = Rng::keyed(&[seed, run, 0xa19]);
    let focus = *r.pick(&[0.0, 1.0, 3.0, 4.0, 4.0]);
    plan.params.insert("hostile_focus".into(), focus);
    if focus == 4.0 {
        plan.params.insert("hostile_max".into(), r.range(2000, 12_000) as f64);
    }
    plan
}
fn c19_adv(plan: &Plan) -> Option<Box<dyn Adversary>> {
    let mut h = Hostile::new(plan, vec![(0, 1)]);
    h.set_rate(1.0, if plan.param("hostile_focus", 0.0) == 4.0 { 6 } else { 20 });
    Some(Box::new(h))
}
/// forged and stale handshake frames (SYN-ACKs and refusals that do not echo the client's nonce,
/// replays) reach clients and server at any phase of their handshakes
fn c19_adv_b(plan: &Plan) -> Option<Box<dyn Adversary>> {
    Some(Box::new(HandshakeForger::new(plan)))
}
fn c19_oracles(_plan: &Plan) -> Vec<Box<dyn Oracle>> {
    vec![Box::new(HeapOracle::new("C19"))]
}

pub fn c19() -> CheckDef {
    CheckDef {
        property: "C19",
        families: vec![Family { name: "b_heap", world: "B", weight: 1, gen: c19_gen_b, oracles: c19_oracles, adversary: Some(c19_adv_b), claims: None, keep_workload: false, custom: None,
            what: "real Client/Server lifecycles: multi-fragment traffic, disconnects from both sides, Server::drop(), clients destroyed mid-transfer and recreated, the server destroyed with live clients, applications that drop the event iterator of step() after 0-2 events, forged and replayed handshake frames at every phase; same allocator oracle (layouts, zero-size requests, double releases via a quarantine of freed blocks, live blocks and bytes after teardown)" },
        Family { name: "a_heap_hostile", world: "A", weight: 1, gen: c19_gen_hostile, oracles: c19_oracles, adversary: Some(c19_adv), claims: None, keep_workload: false, custom: None,
            what: "a victim connection against a hostile connected peer (random well-formed frames; never-completing packets; packets announced by their last fragment; complete packets with inconsistent parent leads followed by a walk of the receive window over one slot array and new packets in the same slots), read at any cadence, then dropped; same allocator oracle" },
        Family { name: "a_heap", world: "A", weight: 2, gen: c19_gen, oracles: c19_oracles, adversary: None, claims: None, keep_workload: false, custom: None,
            what: "multi-fragment sizes that are not multiples of the fragment size in every mode; delivered, skipped, window advanced over partial packets (loss of Unreliable/Persistent fragments), connection dropped mid-transfer; a layout-checking allocator watches every deallocation, and after dropping every endpoint the bytes they allocated must all be back" }],
        panic_is_violation: no_panics,
        hang_is_violation: false,
        quick_runs: 9000,
        thorough_runs: 50_000,
        rule: "one case = one simulated run; distinct = distinct run digest; every run ends with a teardown check",
        real_code: REAL_A,
        stubs: STUB_A,
        assumptions: vec![
            "the harness installs a global allocator that stores size and alignment in a header in front of every block and compares them with the Layout passed to dealloc; live bytes are counted per accounting domain (one per endpoint)",
            "Miri is not part of the registered commands (too slow for the run budget); see DESIGN.md",
        ],
    }
}

// ------------------------------------------------------------------------------------------ C20

fn c20_gen(seed: u64, run: u64, thorough: bool) -> Plan {
    let mut r = Rng::keyed(&[seed, run, 0xc20]);
    let horizon = r.range(3, if thorough { 40 } else { 15 }) * 1_000_000;
    let sc = AScenario {
        near_wrap: run % 4 == 0,
        small_windows: run % 2 == 0,
        packets: r.range(50, if thorough { 1500 } else { 500 }),
        send_window_us: horizon * 3 / 4,
        fault_until_us: horizon,
        horizon_us: horizon,
        allow_flips: false,
        allow_stalls: true,
        phases: r.range(1, 3),
    };
    let mut plan = world_a_general("C20", "a_buffer", seed, run, &sc, false);
    // many TimeSensitive packets: turn a share of the sends into TimeSensitive ones
    let share = r.f64() * 0.6;
    for t in plan.timeline.iter_mut() {
        if let Op::Send { mode, len, .. } = &mut t.op {
            if *len >= 4 && r.chance(share) {
                *mode = MODE_TIME_SENSITIVE;
            }
        }
    }
    // one run in eight: a few packets larger than the peer's advertised allocation (rounded up
    // to a whole fragment) among the others - a peer may advertise less than the application
    // sends; such a packet is discarded at once and never counts (generator of its own)
    if run % 8 == 3 {
        let mut r2 = Rng::keyed(&[seed, run, 0xc20_0b16]);
        let limits: Vec<u64> = plan.endpoints.iter().map(|e| match &e.kind { EndpointKind::Hc { spec, .. } => (spec.tx_alloc_limit + FRAG - 1) / FRAG * FRAG, _ => u64::MAX }).collect();
        for t in plan.timeline.iter_mut() {
            if let Op::Send { ep, len, .. } = &mut t.op {
                if limits[*ep] < 200_000 && r2.chance(0.03) {
                    *len = (limits[*ep] + 1 + r2.below(3000)) as u32;
                }
            }
        }
    }
    plan
}
fn c20_gen_b(seed: u64, run: u64, thorough: bool) -> Plan {
    b_transport("C20", "b_buffer", seed, run, thorough, false, false, false)
}
fn c20_oracles(plan: &Plan) -> Vec<Box<dyn Oracle>> {
    with_states(vec![Box::new(TransportOracle::new("C20", TransportClauses { buffer_model: true, ..Default::default() }, plan))])
}

/// Lifecycle traffic: sends, graceful and immediate disconnects from both sides, drops, restarts.
/// The public query is compared with the model while the connection is established - also
/// after disconnect() has been asked for and the queue is still being flushed.
fn c20_gen_lifecycle(seed: u64, run: u64, thorough: bool) -> Plan {
    world_b_lifecycle("C20", "b_buffer_lifecycle", seed, run, thorough)
}

pub fn c20() -> CheckDef {
    CheckDef {
        property: "C20",
        families: vec![Family { name: "b_buffer_lifecycle", world: "B", weight: 1, gen: c20_gen_lifecycle, oracles: c20_oracles, adversary: None, claims: None, keep_workload: false, custom: None,
            what: "the same model through connection lifecycles (sends interleaved with disconnect() / disconnect_now() from either side, Server::drop, client restarts, faults on handshake and disconnect frames): the public send_buffer_size() of Client and RemoteClient is compared with the model as long as the connection is established, including while a graceful disconnect is being flushed" },
            Family { name: "b_buffer", world: "B", weight: 1, gen: c20_gen_b, oracles: c20_oracles, adversary: None, claims: None, keep_workload: false, custom: None,
            what: "the same model against the send_buffer_size() of real Clients and RemoteClients (packets queued before Connect included)" },
        Family { name: "a_buffer", world: "A", weight: 3, gen: c20_gen, oracles: c20_oracles, adversary: None, claims: None, keep_workload: false, custom: None,
            what: "mixed traffic with many TimeSensitive packets, window and allocation stalls, ack loss; after every call send_buffer_size() must equal accepted - acknowledged - discarded" }],
        panic_is_violation: overflow_in_sender,
        hang_is_violation: false,
        quick_runs: 8000,
        thorough_runs: 50_000,
        rule: "one case = one simulated run; distinct = distinct run digest; non-trivial = at least 10 packets delivered",
        real_code: REAL_A,
        stubs: STUB_A,
        assumptions: vec!["the model uses three trace taps (packet emitted, TimeSensitive dropped, packet base advanced) and cross-checks them against its own queue model; underflow would surface as an overflow panic (overflow-checks are on)"],
    }
}

pub fn all() -> Vec<CheckDef> {
    vec![c01(), c02(), c03(), c04(), c05(), c06(), c07(), c08(), c09(), c10(), c11(), c12(), c13(), c14(), c15(), c17(), c18(), c19(), c20()]
}

pub fn by_id(id: &str) -> Option<CheckDef> {
    all().into_iter().find(|c| c.property == id)
}
