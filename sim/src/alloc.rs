//! Heap monitor: a global allocator wrapper that (a) checks that every block is released with the
//! layout it was allocated with, and (b) counts live requested bytes per thread and per
//! accounting *domain* (0 = harness, k = endpoint k). Compiled out under Miri, which checks
//! layouts itself.

use std::alloc::{GlobalAlloc, Layout, System};
use std::cell::Cell;

pub const MAX_DOMAINS: usize = 24;

#[repr(C)]
struct Header {
    size: u64,
    align: u32,
    domain: u32,
}

const HEADER_SIZE: usize = 16;

thread_local! {
    static DOMAIN: Cell<usize> = const { Cell::new(0) };
    static LIVE: [Cell<i64>; MAX_DOMAINS] = const { [const { Cell::new(0) }; MAX_DOMAINS] };
    static PEAK: [Cell<i64>; MAX_DOMAINS] = const { [const { Cell::new(0) }; MAX_DOMAINS] };
    static MISMATCHES: Cell<u64> = const { Cell::new(0) };
    static LAST_MISMATCH: Cell<(u64, u64, u64, u64)> = const { Cell::new((0, 0, 0, 0)) };
    static ALLOCS: Cell<u64> = const { Cell::new(0) };
    static LIVE_BLOCKS: [Cell<i64>; MAX_DOMAINS] = const { [const { Cell::new(0) }; MAX_DOMAINS] };
    /// zero-size requests made inside an endpoint's domain (GlobalAlloc::alloc requires a
    /// non-zero size; Rust's own collections never ask for one)
    static ZERO_SIZE: Cell<u64> = const { Cell::new(0) };
    /// blocks released a second time while still in quarantine
    static DOUBLE_FREES: Cell<u64> = const { Cell::new(0) };
    static LAST_DOUBLE_FREE: Cell<(u64, u64)> = const { Cell::new((0, 0)) };
    /// released blocks are kept for a while before they go back to the system allocator, so that a
    /// second release of the same block is recognised (by the mark in its header) instead of
    /// corrupting the heap: (base pointer, total size, alignment of the inner layout)
    static QUARANTINE: [Cell<(usize, usize, usize)>; QUARANTINE_SLOTS] = const { [const { Cell::new((0, 0, 0)) }; QUARANTINE_SLOTS] };
    static QUARANTINE_NEXT: Cell<usize> = const { Cell::new(0) };
    /// switched off when an execution thread winds up (see `drain_quarantine`)
    static QUARANTINE_OFF: Cell<bool> = const { Cell::new(false) };
    /// bytes requested (gross) since the current call into uflow began
    static GROSS: Cell<u64> = const { Cell::new(0) };
}

/// A single call into uflow that has requested this much memory is not going to return: the
/// thread is parked inside the allocator, so that the supervisor (or the alarm of a confirming
/// child process) can report the call as hung instead of the machine running out of memory.
const GROSS_CAP: u64 = 2 << 30;

pub fn reset_gross() {
    let _ = GROSS.try_with(|g| g.set(0));
}

const QUARANTINE_SLOTS: usize = 2048;
const QUARANTINE_MAX_BLOCK: usize = 1 << 16;
const FREED_MARK: u32 = 0x8000_0000;

pub struct Monitor;

#[inline]
fn prefix(align: usize) -> usize {
    align.max(HEADER_SIZE)
}

unsafe impl GlobalAlloc for Monitor {
    unsafe fn alloc(&self, layout: Layout) -> *mut u8 {
        if layout.size() == 0 && DOMAIN.try_with(|d| d.get()).unwrap_or(0) != 0 {
            let _ = ZERO_SIZE.try_with(|z| z.set(z.get() + 1));
        }
        let over = GROSS
            .try_with(|g| {
                let v = g.get().saturating_add(layout.size() as u64);
                g.set(v);
                v > GROSS_CAP
            })
            .unwrap_or(false);
        if over && crate::watchdog::in_guarded_call_try() {
            loop {
                std::thread::sleep(std::time::Duration::from_secs(3600));
            }
        }
        let pre = prefix(layout.align());
        let total = match layout.size().checked_add(pre) {
            Some(t) => t,
            None => return std::ptr::null_mut(),
        };
        let inner = match Layout::from_size_align(total, pre) {
            Ok(l) => l,
            Err(_) => return std::ptr::null_mut(),
        };
        let base = System.alloc(inner);
        if base.is_null() {
            return base;
        }
        let user = base.add(pre);
        let domain = DOMAIN.try_with(|d| d.get()).unwrap_or(0);
        let hdr = user.sub(HEADER_SIZE) as *mut Header;
        (*hdr).size = layout.size() as u64;
        (*hdr).align = layout.align() as u32;
        (*hdr).domain = domain as u32;
        let _ = LIVE.try_with(|l| {
            let c = &l[domain];
            c.set(c.get() + layout.size() as i64);
            let _ = PEAK.try_with(|p| {
                if c.get() > p[domain].get() {
                    p[domain].set(c.get());
                }
            });
        });
        let _ = ALLOCS.try_with(|a| a.set(a.get() + 1));
        let _ = LIVE_BLOCKS.try_with(|l| l[domain].set(l[domain].get() + 1));
        user
    }

    unsafe fn dealloc(&self, ptr: *mut u8, layout: Layout) {
        let hdr = ptr.sub(HEADER_SIZE) as *mut Header;
        if (*hdr).domain & FREED_MARK != 0 {
            // released before and still in quarantine: count it, do not release again
            let _ = DOUBLE_FREES.try_with(|d| d.set(d.get() + 1));
            let _ = LAST_DOUBLE_FREE.try_with(|d| d.set(((*hdr).size, layout.size() as u64)));
            return;
        }
        let size = (*hdr).size as usize;
        let align = (*hdr).align as usize;
        let domain = (*hdr).domain as usize;
        if size != layout.size() || align != layout.align() {
            let _ = MISMATCHES.try_with(|m| m.set(m.get() + 1));
            let _ = LAST_MISMATCH.try_with(|m| m.set((size as u64, align as u64, layout.size() as u64, layout.align() as u64)));
        }
        let _ = LIVE.try_with(|l| {
            let c = &l[domain.min(MAX_DOMAINS - 1)];
            c.set(c.get() - size as i64);
        });
        let _ = LIVE_BLOCKS.try_with(|l| {
            let c = &l[domain.min(MAX_DOMAINS - 1)];
            c.set(c.get() - 1);
        });
        let pre = prefix(align);
        let total = size + pre;
        if total <= QUARANTINE_MAX_BLOCK && !QUARANTINE_OFF.try_with(|q| q.get()).unwrap_or(true) {
            (*hdr).domain |= FREED_MARK;
            let evicted = QUARANTINE_NEXT.try_with(|n| {
                let i = n.get();
                n.set((i + 1) % QUARANTINE_SLOTS);
                QUARANTINE.try_with(|q| q[i].replace((ptr.sub(pre) as usize, total, pre))).ok()
            });
            match evicted {
                Ok(Some((base, t, a))) => {
                    if base != 0 {
                        System.dealloc(base as *mut u8, Layout::from_size_align_unchecked(t, a));
                    }
                }
                _ => {
                    // thread-local storage is gone (thread exit): release at once
                    System.dealloc(ptr.sub(pre), Layout::from_size_align_unchecked(total, pre));
                }
            }
            return;
        }
        let inner = Layout::from_size_align_unchecked(total, pre);
        System.dealloc(ptr.sub(pre), inner);
    }
}

/// Returns every block this thread holds in quarantine to the system and switches the quarantine
/// off for the rest of the thread's life (called when an execution thread winds up: its
/// thread-local slots have no destructor).
pub fn drain_quarantine() {
    QUARANTINE_OFF.with(|q| q.set(true));
    QUARANTINE.with(|q| {
        for slot in q.iter() {
            let (base, t, a) = slot.replace((0, 0, 0));
            if base != 0 {
                unsafe { System.dealloc(base as *mut u8, Layout::from_size_align_unchecked(t, a)) };
            }
        }
    });
}

/// Sets the accounting domain for allocations made on this thread; returns the previous one.
pub fn set_domain(domain: usize) -> usize {
    DOMAIN.with(|d| d.replace(domain.min(MAX_DOMAINS - 1)))
}

/// Live requested bytes allocated by `domain` on this thread (may be freed by anyone).
pub fn live(domain: usize) -> i64 {
    LIVE.with(|l| l[domain.min(MAX_DOMAINS - 1)].get())
}

/// Live blocks allocated by `domain` on this thread.
pub fn live_blocks(domain: usize) -> i64 {
    LIVE_BLOCKS.with(|l| l[domain.min(MAX_DOMAINS - 1)].get())
}

/// Zero-size allocation requests made inside endpoint domains on this thread since the last reset.
pub fn zero_size_requests() -> u64 {
    ZERO_SIZE.with(|z| z.get())
}

/// Blocks released twice (on this thread, since the last reset) and (size at allocation, size
/// passed to the second release) of the latest one.
pub fn double_frees() -> u64 {
    DOUBLE_FREES.with(|d| d.get())
}

pub fn last_double_free() -> (u64, u64) {
    LAST_DOUBLE_FREE.with(|d| d.get())
}

pub fn reset_double_frees() {
    DOUBLE_FREES.with(|d| d.set(0));
}

pub fn reset_zero_size_requests() {
    ZERO_SIZE.with(|z| z.set(0));
}

pub fn peak(domain: usize) -> i64 {
    PEAK.with(|l| l[domain.min(MAX_DOMAINS - 1)].get())
}

pub fn reset_peak(domain: usize) {
    let cur = live(domain);
    PEAK.with(|l| l[domain.min(MAX_DOMAINS - 1)].set(cur));
}

/// Number of deallocations on this thread whose layout disagreed with the allocation.
pub fn mismatches() -> u64 {
    MISMATCHES.with(|m| m.get())
}

/// (allocated size, allocated align, dealloc size, dealloc align) of the latest mismatch.
pub fn last_mismatch() -> (u64, u64, u64, u64) {
    LAST_MISMATCH.with(|m| m.get())
}

pub fn alloc_count() -> u64 {
    ALLOCS.with(|a| a.get())
}

/// Runs `f` with allocations attributed to `domain`.
pub fn in_domain<R>(domain: usize, f: impl FnOnce() -> R) -> R {
    let prev = set_domain(domain);
    let r = f();
    set_domain(prev);
    r
}

pub fn reset_mismatches() {
    MISMATCHES.with(|m| m.set(0));
}
